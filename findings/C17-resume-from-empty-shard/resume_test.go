// Finding C17-resume-from-empty-shard (adapted from a seed agent's demonstration). Copy into /repo/oxia/
// (package oxia) and run:
//
//	GOFLAGS=-mod=mod GOPROXY=off go test -vet=off -count=1 -run TestZZC17 ./oxia/
package oxia

import (
	"context"
	"fmt"
	"sync"
	"testing"
	"time"

	"github.com/stretchr/testify/assert"
	"github.com/stretchr/testify/require"
	"google.golang.org/grpc"

	"github.com/oxia-db/oxia/common/rpc"
	"github.com/oxia-db/oxia/proto"
	"github.com/oxia-db/oxia/server"
)

// zzc17FlakyPool wraps the real gRPC client pool. Every notification stream
// that is opened through it gets its own cancellable context, so the test can
// break the stream exactly like a dropped connection would (Recv() fails with
// an error, the shard notification manager goes through its regular
// backoff + reconnect path). Everything else is the real client and a real
// standalone server.
type zzc17FlakyPool struct {
	rpc.ClientPool

	mu      sync.Mutex
	cancels []context.CancelFunc
	starts  []*int64 // StartOffsetExclusive of every GetNotifications request
}

func (p *zzc17FlakyPool) GetClientRpc(target string) (proto.OxiaClientClient, error) {
	c, err := p.ClientPool.GetClientRpc(target)
	if err != nil {
		return nil, err
	}
	return &zzc17FlakyClient{OxiaClientClient: c, pool: p}, nil
}

func (p *zzc17FlakyPool) streamsOpened() int {
	p.mu.Lock()
	defer p.mu.Unlock()
	return len(p.cancels)
}

func (p *zzc17FlakyPool) breakLastStream() {
	p.mu.Lock()
	defer p.mu.Unlock()
	p.cancels[len(p.cancels)-1]()
}

type zzc17FlakyClient struct {
	proto.OxiaClientClient
	pool *zzc17FlakyPool
}

func (c *zzc17FlakyClient) GetNotifications(ctx context.Context, in *proto.NotificationsRequest,
	opts ...grpc.CallOption) (proto.OxiaClient_GetNotificationsClient, error) {
	streamCtx, cancel := context.WithCancel(ctx)

	c.pool.mu.Lock()
	c.pool.cancels = append(c.pool.cancels, cancel)
	var start *int64
	if in.StartOffsetExclusive != nil {
		v := *in.StartOffsetExclusive
		start = &v
	}
	c.pool.starts = append(c.pool.starts, start)
	c.pool.mu.Unlock()

	return c.OxiaClientClient.GetNotifications(streamCtx, in, opts...)
}

type zzc17Seen struct {
	Type      NotificationType
	Key       string
	VersionId int64
}

// A subscriber sees the first `seenBeforeBreak` writes of the shard, then its
// notification stream breaks. Two more writes are committed while it is
// disconnected, and one more after it has reconnected. C17 says it must
// continue with the next batch: no loss, no duplicates, same order.
func zzc17ReconnectScenario(t *testing.T, seenBeforeBreak int) {
	t.Helper()

	// NewTestConfig has a notifications retention time of 0 (everything is
	// trimmed at once); C17 only speaks about batches within the retention
	// time, so use a realistic retention.
	config := server.NewTestConfig(t.TempDir())
	config.NotificationsRetentionTime = 1 * time.Hour
	standaloneServer, err := server.NewStandalone(config)
	require.NoError(t, err)
	defer func() { _ = standaloneServer.Close() }()

	serviceAddress := fmt.Sprintf("localhost:%d", standaloneServer.RpcPort())
	client, err := NewSyncClient(serviceAddress, WithBatchLinger(0))
	require.NoError(t, err)
	defer func() { _ = client.Close() }()

	// Route the notification streams (only those) through the flaky pool
	ci := client.(*syncClientImpl).asyncClient.(*clientImpl)
	pool := &zzc17FlakyPool{ClientPool: ci.clientPool}
	ci.clientPool = pool

	notifications, err := client.GetNotifications()
	require.NoError(t, err)
	require.Equal(t, 1, pool.streamsOpened())

	ctx := context.Background()
	var expected []zzc17Seen

	recvOne := func() zzc17Seen {
		select {
		case n := <-notifications.Ch():
			require.NotNil(t, n)
			return zzc17Seen{n.Type, n.Key, n.VersionId}
		case <-time.After(10 * time.Second):
			require.Fail(t, "timed out waiting for a notification")
			return zzc17Seen{}
		}
	}

	// Phase 1: writes that the subscriber sees on its first stream
	for i := 0; i < seenBeforeBreak; i++ {
		key := fmt.Sprintf("/before-%d", i)
		_, v, err := client.Put(ctx, key, []byte("x"))
		require.NoError(t, err)
		assert.Equal(t, zzc17Seen{KeyCreated, key, v.VersionId}, recvOne())
	}

	// Phase 2: the stream breaks; writes are committed while disconnected
	pool.breakLastStream()

	for i := 0; i < 2; i++ {
		key := fmt.Sprintf("/during-%d", i)
		_, v, err := client.Put(ctx, key, []byte("x"))
		require.NoError(t, err)
		expected = append(expected, zzc17Seen{KeyCreated, key, v.VersionId})
	}

	// Phase 3: wait for the subscriber to have re-opened its stream, then
	// write one more key.
	require.Eventually(t, func() bool { return pool.streamsOpened() >= 2 },
		30*time.Second, 10*time.Millisecond, "subscriber did not reconnect")

	_, v, err := client.Put(ctx, "/after", []byte("x"))
	require.NoError(t, err)
	expected = append(expected, zzc17Seen{KeyCreated, "/after", v.VersionId})

	pool.mu.Lock()
	if s := pool.starts[1]; s == nil {
		t.Logf("reconnect request carried NO start offset (seenBeforeBreak=%d)", seenBeforeBreak)
	} else {
		t.Logf("reconnect request carried start offset %d (seenBeforeBreak=%d)", *s, seenBeforeBreak)
	}
	pool.mu.Unlock()

	// Collect everything up to (and including) the notification for "/after"
	var got []zzc17Seen
	for {
		n := recvOne()
		got = append(got, n)
		if n.Key == "/after" {
			break
		}
	}

	assert.Equal(t, expected, got,
		"after reconnecting, the subscriber must receive exactly the batches committed after the last one it saw")
}

// The subscriber connected while the shard was still EMPTY (commit offset -1) and had not received anything
// when its stream broke: before the fix it reconnected without a start offset, was positioned on the
// then-current commit offset and never saw the two writes committed while it was disconnected.
func TestZZC17_ReconnectOfSubscriberOfEmptyShard(t *testing.T) {
	zzc17ReconnectScenario(t, 0)
}

