package wal

import (
	"testing"
	"time"

	"github.com/oxia-db/oxia/proto"
)

func zzSampleLen() int {
	b, _ := (&proto.LogEntry{Term: 1, Offset: 1, Value: []byte{2}, Timestamp: 1000}).MarshalVT()
	return len(b)
}

type zzC struct{}

func (zzC) CommitOffset() int64 { return 1 << 40 }

func TestZZTruncAcross(t *testing.T) {
	opts := &FactoryOptions{BaseWalDir: t.TempDir(), Retention: time.Hour, SegmentSize: int32(2*(12+zzSampleLen())+6), SyncData: false}
	wi, err := newWal("zz", 1, opts, zzC{}, nil, time.Hour)
	if err != nil {
		t.Fatal(err)
	}
	w := wi.(*wal)
	for i := int64(0); i < 3; i++ {
		if err := w.Append(&proto.LogEntry{Term: 1, Offset: i, Value: []byte{byte(i + 1)}, Timestamp: uint64(1000 + i)}); err != nil {
			t.Fatal(err)
		}
	}
	t.Logf("current segment base=%d", w.currentSegment.BaseOffset())
	o, err := w.TruncateLog(1)
	t.Logf("truncate -> %d %v; last=%d cur base=%d", o, err, w.LastOffset(), w.currentSegment.BaseOffset())
	err = w.Append(&proto.LogEntry{Term: 1, Offset: 2, Value: []byte{9}, Timestamp: 1000})
	t.Logf("append 2 -> %v; cur base=%d last=%d", err, w.currentSegment.BaseOffset(), w.LastOffset())
	r, _ := w.NewReader(-1)
	for r.HasNext() {
		e, err := r.ReadNext()
		t.Logf("read: %v %v", e, err)
		if err != nil {
			break
		}
	}
}
