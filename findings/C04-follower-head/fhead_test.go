package server

import (
	"testing"

	"github.com/stretchr/testify/assert"

	"github.com/oxia-db/oxia/common/constant"
	"github.com/oxia-db/oxia/proto"
	"github.com/oxia-db/oxia/server/kv"
	"github.com/oxia-db/oxia/server/wal"
)

// A follower that has appended (not yet synced) an entry must report it in its NewTerm response.
func TestZZFollowerReportsTrueHead(t *testing.T) {
	kvFactory, _ := kv.NewPebbleKVFactory(&kv.FactoryOptions{DataDir: t.TempDir(), InMemory: true, CacheSizeMB: 1})
	walFactory := wal.NewWalFactory(&wal.FactoryOptions{BaseWalDir: t.TempDir(), SyncData: true, SegmentSize: 128 * 1024})
	fci, err := NewFollowerController(Config{}, constant.DefaultNamespace, 1, walFactory, kvFactory)
	assert.NoError(t, err)
	fc := fci.(*followerController)
	_, err = fc.NewTerm(&proto.NewTermRequest{Term: 1})
	assert.NoError(t, err)
	stream := newMockServerReplicateStream()
	// the stream handler appends the entry; the sync loop has not run yet (it may be waiting for the disk)
	assert.NoError(t, fc.append(&proto.Append{Term: 1, Entry: &proto.LogEntry{Term: 1, Offset: 0, Value: []byte("x")}, CommitOffset: -1}, stream))
	assert.EqualValues(t, 0, fc.lastAppendedOffset)
	resp, err := fc.NewTerm(&proto.NewTermRequest{Term: 2})
	assert.NoError(t, err)
	assert.EqualValues(t, 0, resp.HeadEntryId.Offset, "reported head must be the end of the log")
	// a new leader that was told 'head = -1' re-sends offset 0 with its own content: it must not be acknowledged as stored
	_, err = fc.Truncate(&proto.TruncateRequest{Term: 2, HeadEntryId: resp.HeadEntryId})
	_ = err
}
