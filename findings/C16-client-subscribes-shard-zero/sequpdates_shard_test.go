package oxia

import (
	"context"
	"fmt"
	"testing"
	"time"

	"github.com/stretchr/testify/assert"
	"github.com/stretchr/testify/require"

	"github.com/oxia-db/oxia/server"
)

// The client's GetSequenceUpdates must subscribe on the shard that owns the partition key. With 4 shards and a
// partition key that is not owned by shard 0, the stream request used to leave `shard` unset (= 0): the
// subscriber never saw any key.
func TestFindingSequenceUpdatesUsesThePartitionKeysShard(t *testing.T) {
	cfg := server.NewTestConfig(t.TempDir())
	cfg.NumShards = 4
	standaloneServer, err := server.NewStandalone(cfg)
	require.NoError(t, err)
	defer standaloneServer.Close()

	serviceAddress := fmt.Sprintf("localhost:%d", standaloneServer.RpcPort())
	client, err := NewSyncClient(serviceAddress, WithBatchLinger(0))
	require.NoError(t, err)
	defer client.Close()

	// find a partition key that is not on shard 0
	sm := client.(*syncClientImpl).asyncClient.(*clientImpl).shardManager
	pk := ""
	for i := 0; i < 100; i++ {
		c := fmt.Sprintf("pk-%d", i)
		if sm.Get(c) != 0 {
			pk = c
			break
		}
	}
	require.NotEmpty(t, pk)

	k1, _, err := client.Put(context.Background(), "a", []byte("0"), PartitionKey(pk), SequenceKeysDeltas(1))
	require.NoError(t, err)

	ctx, cancel := context.WithCancel(context.Background())
	defer cancel()
	updates, err := client.GetSequenceUpdates(ctx, "a", PartitionKey(pk))
	require.NoError(t, err)

	select {
	case got := <-updates:
		assert.Equal(t, k1, got)
	case <-time.After(5 * time.Second):
		t.Fatalf("subscriber of partition key %q (shard %d) never observed the latest key %s", pk, sm.Get(pk), k1)
	}

	k2, _, err := client.Put(context.Background(), "a", []byte("0"), PartitionKey(pk), SequenceKeysDeltas(1))
	require.NoError(t, err)
	select {
	case got := <-updates:
		assert.Equal(t, k2, got)
	case <-time.After(5 * time.Second):
		t.Fatalf("subscriber never observed %s", k2)
	}
}
