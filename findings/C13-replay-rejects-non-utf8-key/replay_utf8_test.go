package server

import (
	"context"
	"testing"

	"github.com/stretchr/testify/assert"
	"github.com/stretchr/testify/require"

	"github.com/oxia-db/oxia/common/constant"
	"github.com/oxia-db/oxia/proto"
	"github.com/oxia-db/oxia/server/kv"
)

// The gRPC layer and the WAL use the vtprotobuf codec, which accepts any bytes in string fields. A put whose key is
// not valid UTF-8 is accepted, logged and applied by the serving leader and by followers. A node that later has to
// REPLAY that entry when it is elected (its DB is behind its log — followers always are, by one commit round) used
// to decode it with the standard protobuf codec, which refuses invalid UTF-8: BecomeLeader failed, in every term.
func TestFindingElectedNodeReplaysNonUtf8Key(t *testing.T) {
	var shard int64 = 1
	kvFactory, err := kv.NewPebbleKVFactory(testKVOptions)
	require.NoError(t, err)
	walFactory := newTestWalFactory(t)

	lc, err := NewLeaderController(Config{}, constant.DefaultNamespace, shard, newMockRpcClient(), walFactory, kvFactory)
	require.NoError(t, err)
	_, err = lc.NewTerm(&proto.NewTermRequest{Shard: shard, Term: 1})
	require.NoError(t, err)
	_, err = lc.BecomeLeader(context.Background(), &proto.BecomeLeaderRequest{Shard: shard, Term: 1, ReplicationFactor: 1})
	require.NoError(t, err)

	res, err := lc.WriteBlock(context.Background(), &proto.WriteRequest{Shard: &shard,
		Puts: []*proto.PutRequest{{Key: "a\xffb", Value: []byte("v")}}})
	require.NoError(t, err)
	assert.Equal(t, proto.Status_OK, res.Puts[0].Status)
	require.NoError(t, lc.Close())

	// a node that holds the log but whose DB has not applied the entry yet
	kvFactory2, err := kv.NewPebbleKVFactory(&kv.FactoryOptions{DataDir: t.TempDir(), CacheSizeMB: 1, InMemory: true})
	require.NoError(t, err)
	lc2, err := NewLeaderController(Config{}, constant.DefaultNamespace, shard, newMockRpcClient(), walFactory, kvFactory2)
	require.NoError(t, err)
	_, err = lc2.NewTerm(&proto.NewTermRequest{Shard: shard, Term: 2})
	require.NoError(t, err)
	_, err = lc2.BecomeLeader(context.Background(), &proto.BecomeLeaderRequest{Shard: shard, Term: 2, ReplicationFactor: 1})
	assert.NoError(t, err, "a logged client request must not stop a node from becoming leader")
	_ = lc2.Close()
}
