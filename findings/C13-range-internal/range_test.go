package kv

import (
	"testing"

	"github.com/oxia-db/oxia/common/constant"
	"github.com/oxia-db/oxia/common/time"
	"github.com/oxia-db/oxia/proto"
)

func TestZZRangeOverInternal(t *testing.T) {
	factory, _ := NewPebbleKVFactory(&FactoryOptions{DataDir: t.TempDir(), CacheSizeMB: 1, InMemory: true})
	db, err := NewDB(constant.DefaultNamespace, 1, factory, 0, time.SystemClock)
	if err != nil {
		t.Fatal(err)
	}
	_, err = db.ProcessWrite(&proto.WriteRequest{Puts: []*proto.PutRequest{{Key: "a", Value: []byte("v")}}}, 0, 1, NoOpCallback)
	t.Logf("put: %v", err)
	_ = db.UpdateTerm(5, TermOptions{})
	_, err = db.ProcessWrite(&proto.WriteRequest{DeleteRanges: []*proto.DeleteRangeRequest{{StartInclusive: "a", EndExclusive: "b/"}}}, 1, 2, NoOpCallback)
	t.Logf("delete-range [a, b/): err=%v", err)
	term, _, err := db.ReadTerm()
	t.Logf("term after: %d err=%v", term, err)
	co, err := db.ReadCommitOffset()
	t.Logf("commit offset after: %d err=%v", co, err)
}
