package wal

// Copy into /repo/server/wal/ and run: go test -vet=off -count=1 -run TestShortIndexFile ./server/wal/
// A crash between the creation of a segment's .idxx file and the write of its content (WriteIndex is
// open(O_CREATE) + write + close, no temp file, no fsync) leaves an index file shorter than its 4-byte
// checksum header. Reopening the segment must rebuild the (redundant) index from the .txnx file, as it does
// for a checksum mismatch; before the fix V2.ReadIndex panicked in ReadInt ("slice bounds out of range").

import (
	"os"
	"path/filepath"
	"testing"

	"github.com/stretchr/testify/assert"
)

func TestShortIndexFile(t *testing.T) {
	for _, size := range []int64{0, 1, 3} {
		dir := t.TempDir()
		rw, err := newReadWriteSegment(dir, 0, 1024, 0, nil)
		assert.NoError(t, err)
		assert.NoError(t, rw.Append(0, []byte("entry-0")))
		assert.NoError(t, rw.Append(1, []byte("entry-1")))
		assert.NoError(t, rw.Close())
		idx, _ := filepath.Glob(filepath.Join(dir, "*.idxx"))
		assert.Len(t, idx, 1)
		assert.NoError(t, os.Truncate(idx[0], size))

		assert.NotPanics(t, func() {
			ro, err := newReadOnlySegment(dir, 0)
			assert.NoError(t, err)
			if err == nil {
				assert.EqualValues(t, 1, ro.LastOffset())
				d, err := ro.Read(1)
				assert.NoError(t, err)
				assert.Equal(t, "entry-1", string(d))
				assert.NoError(t, ro.Close())
			}
		}, "index file of %d bytes", size)
	}
}
