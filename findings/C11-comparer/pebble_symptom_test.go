package kv

import (
	"bytes"
	"testing"

	"github.com/oxia-db/oxia/common/constant"
)

func TestZZSepSymptom(t *testing.T) {
	factory, err := NewPebbleKVFactory(&FactoryOptions{DataDir: t.TempDir(), CacheSizeMB: 1, InMemory: false})
	if err != nil {
		t.Fatal(err)
	}
	kv, err := factory.NewKV(constant.DefaultNamespace, 1)
	if err != nil {
		t.Fatal(err)
	}
	big := bytes.Repeat([]byte("v"), 62000)
	keys := []string{"a.b", "a0"}
	wb := kv.NewWriteBatch()
	for _, k := range keys {
		if err := wb.Put(k, big); err != nil {
			t.Fatal(err)
		}
	}
	if err := wb.Commit(); err != nil {
		t.Fatal(err)
	}
	wb.Close()
	for _, k := range keys {
		_, _, c, err := kv.Get(k, ComparisonEqual)
		if err != nil {
			t.Errorf("before flush: Get(%q): %v", k, err)
		} else {
			c.Close()
		}
	}
	if err := kv.Flush(); err != nil {
		t.Fatal(err)
	}
	for _, k := range keys {
		_, _, c, err := kv.Get(k, ComparisonEqual)
		if err != nil {
			t.Errorf("after flush: Get(%q): %v", k, err)
		} else {
			c.Close()
		}
	}
	for _, ct := range []ComparisonType{ComparisonFloor, ComparisonLower, ComparisonCeiling, ComparisonHigher} {
		for _, probe := range []string{"a0", "a1", "a00", "a.b", "a.c", "a/"} {
			k, _, c, err := kv.Get(probe, ct)
			if err == nil {
				c.Close()
			}
			t.Logf("Get(%q, %v) = %q err=%v", probe, ct, k, err)
		}
	}
	it, _ := kv.KeyRangeScanReverse("", "b")
	for ; it.Valid(); it.Prev() {
		t.Logf("reverse scan: %q", it.Key())
	}
	it.Close()
}
