package oxia

// Copy into /repo/oxia/ and run: go test -vet=off -count=1 -run TestRangeScanChannelClosedWhenStreamCannotBeOpened ./oxia/
// rangeScanFromShard registered `defer close(ch)` only AFTER ExecuteRangeScan had succeeded: when the stream
// cannot be opened (leader unreachable, shard without leader, ...) the error was sent but the channel was
// never closed. On the single-shard path (partition key) that channel IS the caller's result channel:
// `for r := range client.RangeScan(...)` received the error and then blocked forever.

import (
	"context"
	"errors"
	"testing"
	"time"

	"github.com/stretchr/testify/assert"

	"github.com/oxia-db/oxia/proto"
)

type failingScanExecutor struct{}

func (failingScanExecutor) ExecuteWrite(context.Context, *proto.WriteRequest) (*proto.WriteResponse, error) {
	return nil, errors.New("unused")
}
func (failingScanExecutor) ExecuteRead(context.Context, *proto.ReadRequest) (proto.OxiaClient_ReadClient, error) {
	return nil, errors.New("unused")
}
func (failingScanExecutor) ExecuteList(context.Context, *proto.ListRequest) (proto.OxiaClient_ListClient, error) {
	return nil, errors.New("unused")
}
func (failingScanExecutor) ExecuteRangeScan(context.Context, *proto.RangeScanRequest) (proto.OxiaClient_RangeScanClient, error) {
	return nil, errors.New("connection refused")
}

type oneShard struct{}

func (oneShard) Close() error        { return nil }
func (oneShard) Get(string) int64    { return 0 }
func (oneShard) GetAll() []int64     { return []int64{0} }
func (oneShard) Leader(int64) string { return "l" }

func TestRangeScanChannelClosedWhenStreamCannotBeOpened(t *testing.T) {
	c := &clientImpl{shardManager: oneShard{}, executor: failingScanExecutor{}, ctx: context.Background()}
	done := make(chan int, 1)
	go func() {
		errs := 0
		for r := range c.RangeScan(context.Background(), "a", "z", PartitionKey("pk")) {
			if r.Err != nil {
				errs++
			}
		}
		done <- errs
	}()
	select {
	case errs := <-done:
		assert.Equal(t, 1, errs)
	case <-time.After(2 * time.Second):
		t.Fatal("the result channel of RangeScan was never closed: the caller hangs")
	}
}
