package kv

// Copy into /repo/server/kv/ and run: go test -vet=off -count=1 -run TestSequenceSubscriberAboveInt64 ./server/kv/
// Sequence suffixes are uint64 (generateUniqueKeyFromSequences scans up to MaxUint64), but
// db.GetSequenceUpdates looked for the latest existing key only below "<prefix>-%020d" of MaxInt64: once a
// sequence had passed 2^63 (one put with a large delta is enough) a new subscriber was told an older key,
// or nothing, until the next key was generated.

import (
	"testing"
	"time"

	"github.com/stretchr/testify/assert"

	"github.com/oxia-db/oxia/proto"
)

func TestSequenceSubscriberAboveInt64(t *testing.T) {
	factory, err := NewPebbleKVFactory(&FactoryOptions{InMemory: true, DataDir: t.TempDir(), CacheSizeMB: 1})
	assert.NoError(t, err)
	db, err := NewDB("default", 1, factory, 0, nil)
	assert.NoError(t, err)
	pk := "pk"
	put := func(delta uint64) string {
		res, err := db.ProcessWrite(&proto.WriteRequest{Puts: []*proto.PutRequest{{Key: "seq", Value: []byte("v"),
			PartitionKey: &pk, SequenceKeyDelta: []uint64{delta}}}}, 0, 0, NoOpCallback)
		assert.NoError(t, err)
		return *res.Puts[0].Key
	}
	first := put(5)
	latest := put(1 << 63)
	assert.NotEqual(t, first, latest)

	sw, err := db.GetSequenceUpdates("seq")
	assert.NoError(t, err)
	select {
	case got := <-sw.Ch():
		assert.Equal(t, latest, got, "a new subscriber must be told the latest generated key")
	case <-time.After(time.Second):
		t.Fatal("a new subscriber was told nothing although the sequence has keys")
	}
	assert.NoError(t, sw.Close())
	assert.NoError(t, db.Close())
}
