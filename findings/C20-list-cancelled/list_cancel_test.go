package oxia

// Copy into /repo/oxia/ and run: go test -vet=off -count=1 -run TestListWithCancelledContext ./oxia/
// clientImpl.List over several shards closes the result channel as soon as wg.Wait(ctx) returns — which it
// does immediately when the caller's context ends — while the per-shard goroutines are still running and
// report their (context) error with `ch <- ListResult{Err: err}`: a send on a closed channel, i.e. a panic
// that takes the whole client process down. Before the fix this test crashes the test binary.

import (
	"context"
	"fmt"
	"testing"
	"time"

	"github.com/stretchr/testify/assert"

	"github.com/oxia-db/oxia/server"
)

func TestListWithCancelledContext(t *testing.T) {
	config := server.NewTestConfig(t.TempDir())
	config.NumShards = 8
	standaloneServer, err := server.NewStandalone(config)
	assert.NoError(t, err)
	client, err := NewSyncClient(fmt.Sprintf("localhost:%d", standaloneServer.RpcPort()))
	assert.NoError(t, err)
	for i := 0; i < 50; i++ {
		_, _, err := client.Put(context.Background(), fmt.Sprintf("key-%d", i), []byte("v"))
		assert.NoError(t, err)
	}
	async, err := NewAsyncClient(fmt.Sprintf("localhost:%d", standaloneServer.RpcPort()))
	assert.NoError(t, err)

	for round := 0; round < 200; round++ {
		ctx, cancel := context.WithCancel(context.Background())
		if round%2 == 0 {
			cancel() // already cancelled when List is called
		}
		ch := async.List(ctx, "", "zzz")
		if round%2 == 1 {
			<-ch // read one result, then give up
			cancel()
		}
		for range ch { //nolint:revive
		}
		cancel()
	}
	time.Sleep(200 * time.Millisecond) // let stray goroutines run into the closed channel
	assert.NoError(t, async.Close())
	assert.NoError(t, client.Close())
	assert.NoError(t, standaloneServer.Close())
}
