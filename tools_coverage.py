#!/usr/bin/env python3
# Which functions of the property-relevant packages of /repo did no check interpret (per the evidence files)?
import json,glob,re,os
seen=set()
for f in glob.glob('/verif/evidence/C*.json'):
    e=json.load(open(f))
    for x in e['coverage']['functions_encoded']['repo']: seen.add(re.sub(r' ×\d+$','',x))
def norm(x): return re.sub(r'\[[^\]]*\]','',x)
seenn={norm(x) for x in seen}
allf=[]
for d in ['server','server/kv','server/wal','server/wal/codec','server/util','coordinator','coordinator/controllers','coordinator/balancer','coordinator/utils','coordinator/resources','coordinator/metadata','coordinator/selectors/ensemble','coordinator/selectors/single','coordinator/model','common/compare','common/sharding','common/hash','oxia','oxia/batch','oxia/internal','oxia/internal/batch','common/channel','common/concurrent','common/callback']:
    for fn in glob.glob(f'/repo/{d}/*.go'):
        if fn.endswith('_test.go') or '.pb.' in fn: continue
        src=open(fn).read()
        for m in re.finditer(r'^func (\((\w+) (\*?)([\w\[\], ]+)\) )?(\w+)\(', src, re.M):
            recv=m.group(4); star=m.group(3); name=m.group(5)
            pk='github.com/oxia-db/oxia/'+d
            if recv:
                recv=re.sub(r'\[.*','',recv)
                full=f'({star}{pk}.{recv}).{name}'
            else: full=f'{pk}.{name}'
            start=m.start(); end=src.find('\n}\n',start)
            allf.append((full, os.path.relpath(fn,'/repo'), src[start:end].count('\n')))
miss=[x for x in allf if norm(x[0]) not in seenn]
print(len(allf), len(miss))
from collections import defaultdict
by=defaultdict(list)
for f,fn,n in miss: by[fn].append((n,f))
for fn in sorted(by, key=lambda k:-sum(n for n,_ in by[k])):
    tot=sum(n for n,_ in by[fn])
    print(f"== {fn} ({tot} lines uncovered)")
    for n,f in sorted(by[fn],reverse=True)[:12]: print(f"   {n:4d} {f.split('oxia/')[-1]}")
