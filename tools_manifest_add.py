#!/usr/bin/env python3
import json,sys
m=json.load(open('/verif/MANIFEST.json'))
for pid in sys.argv[1:]:
    m['not_applicable']=[x for x in m['not_applicable'] if x['property_id']!=pid]
    if not any(c['property_id']==pid for c in m['checks']):
        c=json.loads(json.dumps(m['checks'][0]).replace(m['checks'][0]['property_id'],pid)); m['checks'].append(c)
m['checks'].sort(key=lambda c:c['property_id'])
m['engines'][0]['serves_properties']=[c['property_id'] for c in m['checks']]
json.dump(m,open('/verif/MANIFEST.json','w'),indent=1)
