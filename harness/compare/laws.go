package compare

func zzSign(x int) int {
	if x < 0 {
		return -1
	}
	if x > 0 {
		return 1
	}
	return 0
}

func zzEqBytes(a, b []byte) bool {
	if len(a) != len(b) {
		return false
	}
	for i := range a {
		if a[i] != b[i] {
			return false
		}
	}
	return true
}

// ZZLaws: order laws of the real CompareWithSlash on three symbolic keys of lengths la, lb, lc.
func ZZLaws(la, lb, lc int) {
	a := vBytes("a", la)
	b := vBytes("b", lb)
	c := vBytes("c", lc)
	ab := CompareWithSlash(a, b)
	ba := CompareWithSlash(b, a)
	bc := CompareWithSlash(b, c)
	ac := CompareWithSlash(a, c)
	aa := CompareWithSlash(a, a)
	vObserve("ab", int64(ab))
	vObserve("bc", int64(bc))
	vObserve("ac", int64(ac))
	vAssert("reflexive", aa == 0)
	vAssert("range-lo", ab >= -1)
	vAssert("range-hi", ab <= 1)
	vAssert("antisym", zzSign(ab) == -zzSign(ba))
	vAssert("eq-consistent", (ab == 0) == zzEqBytes(a, b))
	if ab < 0 {
		if bc < 0 {
			vAssert("transitive", ac < 0)
		}
	}
	if ab <= 0 {
		if bc <= 0 {
			vAssert("transitive-eq", ac <= 0)
		}
	}
	vReach("end")
}
