package utils

import (
	"errors"

	"github.com/oxia-db/oxia/common/sharding"
	"github.com/oxia-db/oxia/coordinator/model"
)

func zzCover(ns model.NamespaceStatus, h uint32) int {
	owners := 0
	for _, s := range ns.Shards {
		if s.Status == model.ShardStatusDeleting {
			continue
		}
		if s.Int32HashRange.Min <= h {
			if h <= s.Int32HashRange.Max {
				owners++
			}
		}
	}
	return owners
}

// ZZApply: one step of the real ApplyClusterChanges from a status holding one namespace "old" with n0
// shards (n0 = 0: no namespace yet) under an arbitrary id generator, to a config that keeps or drops
// "old" and adds up to two new namespaces with n1, n2 shards (0 = not added).
// failMode 1: the ensemble supplier fails for a symbolic subset of shards.
func ZZApply(n0, keepOld, n1, n2, failMode int) {
	gen := vInt64("gen")
	vAssume(gen >= int64(n0))
	vAssume(gen < 1000000)
	servers := []model.Server{{Public: "s1", Internal: "s1"}, {Public: "s2", Internal: "s2"}, {Public: "s3", Internal: "s3"}}
	cur := &model.ClusterStatus{Namespaces: map[string]model.NamespaceStatus{}, ShardIdGenerator: gen, ServerIdx: 0}
	if n0 > 0 {
		oldBase := vInt64("oldBase")
		vAssume(oldBase >= 0)
		vAssume(oldBase < 1000000)
		vAssume(oldBase+int64(n0) <= gen)
		ns := model.NamespaceStatus{ReplicationFactor: 1, Shards: map[int64]model.ShardMetadata{}}
		for _, s := range sharding.GenerateShards(oldBase, uint32(n0)) {
			ns.Shards[s.Id] = model.ShardMetadata{Status: model.ShardStatusSteadyState, Term: 1, Ensemble: servers[:1],
				Int32HashRange: model.Int32HashRange{Min: s.Min, Max: s.Max}}
		}
		cur.Namespaces["old"] = ns
	}
	cfg := &model.ClusterConfig{Servers: servers}
	if n0 > 0 && keepOld >= 1 {
		cnt := n0
		if keepOld == 2 {
			// the operator has edited initialShardCount of an EXISTING namespace: it is not re-sharded, its shards
			// stay exactly as they are (and certainly no second set of shards is laid over the first)
			cnt = n0 + 1
		}
		cfg.Namespaces = append(cfg.Namespaces, model.NamespaceConfig{Name: "old", InitialShardCount: uint32(cnt), ReplicationFactor: 1})
	}
	if n1 > 0 {
		cfg.Namespaces = append(cfg.Namespaces, model.NamespaceConfig{Name: "n1", InitialShardCount: uint32(n1), ReplicationFactor: 1})
	}
	if n2 > 0 {
		cfg.Namespaces = append(cfg.Namespaces, model.NamespaceConfig{Name: "n2", InitialShardCount: uint32(n2), ReplicationFactor: 1})
	}
	failures := 0
	supplier := func(*model.NamespaceConfig, *model.ClusterStatus) ([]model.Server, error) {
		if failMode == 1 {
			if vBool("supplierFails") {
				failures++
				return nil, errors.New("no ensemble")
			}
		}
		return servers[:1], nil
	}
	ns, toAdd, toDelete := ApplyClusterChanges(cfg, cur, supplier)

	h := vUint32("hash")
	anyFailed := vKnown("KF-C18-ensemble-failure-leaves-hole", failures > 0)
	// every configured namespace covers the hash space exactly once
	for _, nc := range cfg.Namespaces {
		st, ok := ns.Namespaces[nc.Name]
		vAssert("configured-namespace-present", ok)
		vAssert("covers-exactly-once", zzCover(st, h) == 1)
		_ = anyFailed
	}
	// ids: unique across the cluster, below the new generator; new ones at or above the old generator
	total := 0
	for name, st := range ns.Namespaces {
		for id := range st.Shards {
			total++
			vAssert("id-below-generator", id < ns.ShardIdGenerator)
			// C19: a shard exists only with a full ensemble; a shard whose ensemble cannot be chosen is refused
			vAssert("every-shard-has-rf-servers", len(st.Shards[id].Ensemble) == int(st.ReplicationFactor) && st.ReplicationFactor >= 1)
			if name != "old" {
				vAssert("new-id-never-issued-before", id >= gen)
				vAssert("added-listed", toAdd[id] == name)
			}
			for name2, st2 := range ns.Namespaces {
				if name2 != name {
					_, dup := st2.Shards[id]
					vAssert("id-unique-across-namespaces", !dup)
				}
			}
		}
	}
	vAssert("generator-monotone", ns.ShardIdGenerator >= gen)
	vAssert("generator-advanced-by-count", ns.ShardIdGenerator == gen+int64(n1)+int64(n2))
	if failures == 0 {
		vAssert("shard-total", total == n0+n1+n2)
	}
	// dropped namespace: kept, all shards DELETING and reported
	if n0 > 0 {
		st := ns.Namespaces["old"]
		vAssert("old-kept-in-status", len(st.Shards) == n0)
		for id, s := range st.Shards {
			if keepOld >= 1 {
				vAssert("kept-untouched", s.Status == model.ShardStatusSteadyState)
			} else {
				vAssert("dropped-marked-deleting", s.Status == model.ShardStatusDeleting)
				found := false
				for _, d := range toDelete {
					if d == id {
						found = true
					}
				}
				vAssert("dropped-reported", found)
			}
		}
		for _, s := range cur.Namespaces["old"].Shards {
			vAssert("input-status-not-mutated", s.Status == model.ShardStatusSteadyState)
		}
		if keepOld == 0 {
			vAssert("delete-count", len(toDelete) == n0)
		}
	}
	vAssert("input-generator-not-mutated", cur.ShardIdGenerator == gen)
	vReach("end")
}
