package resources

import (
	"github.com/oxia-db/oxia/coordinator/metadata"
	"github.com/oxia-db/oxia/coordinator/model"
)

// ZZStatusSwap (C05 / C18): the real status resource over the in-memory metadata store. The election path
// persists terms with UpdateShardMetadata; the config-change path uses LoadWithVersion + Swap as a
// compare-and-set. After `n` updates a snapshot is taken, then `m` >= 0 further term updates are persisted
// (an election that lands in between), then the stale snapshot is swapped in. The swap must succeed iff
// nothing was stored in between; a refused swap leaves the newer status — in particular the highest term
// ever persisted is never lost — and what the resource holds is what the store holds.
func ZZStatusSwap(n, m int) {
	meta := metadata.NewMetadataProviderMemory()
	r := NewStatusResource(meta)
	st := &model.ClusterStatus{Namespaces: map[string]model.NamespaceStatus{"a": {ReplicationFactor: 1, Shards: map[int64]model.ShardMetadata{
		0: {Status: model.ShardStatusSteadyState, Term: 0}}}}, ShardIdGenerator: 1}
	r.Update(st)
	term := int64(0)
	bump := func() {
		term++
		r.UpdateShardMetadata("a", 0, model.ShardMetadata{Status: model.ShardStatusElection, Term: term})
	}
	for i := 0; i < n; i++ {
		bump()
	}
	snap, ver := r.LoadWithVersion()
	stale := snap.Clone()
	stale.ShardIdGenerator = 7 // what the config change wants to write on top of its snapshot
	snapTerm := term
	for i := 0; i < m; i++ {
		bump()
	}
	ok := r.Swap(stale, ver)
	vAssert("swap-succeeds-iff-nothing-was-stored-in-between", ok == (m == 0))
	cur, _ := r.LoadWithVersion()
	stored, _, _ := meta.Get()
	vAssert("resource-and-store-agree", stored.Namespaces["a"].Shards[0].Term == cur.Namespaces["a"].Shards[0].Term && stored.ShardIdGenerator == cur.ShardIdGenerator)
	vAssert("highest-persisted-term-is-never-lost", stored.Namespaces["a"].Shards[0].Term == term)
	if ok {
		vAssert("swapped-status-is-stored", stored.ShardIdGenerator == 7 && snapTerm == term)
	} else {
		vAssert("refused-swap-changes-nothing", stored.ShardIdGenerator == 1)
	}
	vReach("end")
}

// ZZStatusSwapRace (C05): the same compare-and-set while an election persists a new term CONCURRENTLY (every lock
// acquisition of the status resource is a preemption point): the config-change path takes its snapshot, an election
// goroutine bumps the shard's term (UpdateShardMetadata) at any moment, the stale snapshot is swapped in. Whatever
// the interleaving, the term the election made durable is never overwritten by the older snapshot — a coordinator
// that restarts from the store can never issue that term again — and a swap that reports success has stored
// exactly its status on top of the version it was computed from.
func ZZStatusSwapRace(n, reps int) {
	// reps: natively the scenario is repeated (the window between check and store is a few instructions wide)
	for rep := 0; rep < reps; rep++ {
		zzStatusSwapRaceOnce(n)
	}
	vReach("end")
}

func zzStatusSwapRaceOnce(n int) {
	meta := metadata.NewMetadataProviderMemory()
	r := NewStatusResource(meta)
	st := &model.ClusterStatus{Namespaces: map[string]model.NamespaceStatus{"a": {ReplicationFactor: 1, Shards: map[int64]model.ShardMetadata{
		0: {Status: model.ShardStatusSteadyState, Term: 0}}}}, ShardIdGenerator: 1}
	r.Update(st)
	for i := 1; i <= n; i++ {
		r.UpdateShardMetadata("a", 0, model.ShardMetadata{Status: model.ShardStatusElection, Term: int64(i)})
	}
	snap, ver := r.LoadWithVersion()
	stale := snap.Clone()
	stale.ShardIdGenerator = 7
	done := make(chan bool, 1)
	vGo("election", func() {
		r.UpdateShardMetadata("a", 0, model.ShardMetadata{Status: model.ShardStatusElection, Term: int64(n + 1)})
		done <- true
	})
	ok := r.Swap(stale, ver)
	<-done
	stored, _, _ := meta.Get()
	cur, _ := r.LoadWithVersion()
	vAssert("term-made-durable-by-the-election-is-never-rolled-back", stored.Namespaces["a"].Shards[0].Term == int64(n+1))
	vAssert("resource-and-store-agree", cur.Namespaces["a"].Shards[0].Term == stored.Namespaces["a"].Shards[0].Term && cur.ShardIdGenerator == stored.ShardIdGenerator)
	if ok {
		vAssert("successful-swap-was-applied-before-the-election's-update", stored.ShardIdGenerator == 7)
	} else {
		vAssert("refused-swap-changes-nothing", stored.ShardIdGenerator == 1)
	}
}
