package resources

import (
	"github.com/oxia-db/oxia/coordinator/metadata"
	"github.com/oxia-db/oxia/coordinator/model"
)

// ZZStatusSwap (C05 / C18): the real status resource over the in-memory metadata store. The election path
// persists terms with UpdateShardMetadata; the config-change path uses LoadWithVersion + Swap as a
// compare-and-set. After `n` updates a snapshot is taken, then `m` >= 0 further term updates are persisted
// (an election that lands in between), then the stale snapshot is swapped in. The swap must succeed iff
// nothing was stored in between; a refused swap leaves the newer status — in particular the highest term
// ever persisted is never lost — and what the resource holds is what the store holds.
func ZZStatusSwap(n, m int) {
	meta := metadata.NewMetadataProviderMemory()
	r := NewStatusResource(meta)
	st := &model.ClusterStatus{Namespaces: map[string]model.NamespaceStatus{"a": {ReplicationFactor: 1, Shards: map[int64]model.ShardMetadata{
		0: {Status: model.ShardStatusSteadyState, Term: 0}}}}, ShardIdGenerator: 1}
	r.Update(st)
	term := int64(0)
	bump := func() {
		term++
		r.UpdateShardMetadata("a", 0, model.ShardMetadata{Status: model.ShardStatusElection, Term: term})
	}
	for i := 0; i < n; i++ {
		bump()
	}
	snap, ver := r.LoadWithVersion()
	stale := snap.Clone()
	stale.ShardIdGenerator = 7 // what the config change wants to write on top of its snapshot
	snapTerm := term
	for i := 0; i < m; i++ {
		bump()
	}
	ok := r.Swap(stale, ver)
	vAssert("swap-succeeds-iff-nothing-was-stored-in-between", ok == (m == 0))
	cur, _ := r.LoadWithVersion()
	stored, _, _ := meta.Get()
	vAssert("resource-and-store-agree", stored.Namespaces["a"].Shards[0].Term == cur.Namespaces["a"].Shards[0].Term && stored.ShardIdGenerator == cur.ShardIdGenerator)
	vAssert("highest-persisted-term-is-never-lost", stored.Namespaces["a"].Shards[0].Term == term)
	if ok {
		vAssert("swapped-status-is-stored", stored.ShardIdGenerator == 7 && snapTerm == term)
	} else {
		vAssert("refused-swap-changes-nothing", stored.ShardIdGenerator == 1)
	}
	vReach("end")
}
