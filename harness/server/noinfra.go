package server

import (
	"github.com/oxia-db/oxia/proto"
	"github.com/oxia-db/oxia/server/kv"
)

var zzOddStrings = []string{"", "a", "a/b", "/", "\x01", "a\x01b", "%", "__oxia/x", "\xff"}

// ZZNoInfraErrorFull (C13): the real ProcessWrite with the REAL wrapper callback (sessions, ephemerals,
// secondary indexes) on a DB holding a live session, an ephemeral indexed record and a plain record.
// Requests a client can put on the wire — nothing validates them before they are logged — with awkward
// index names, secondary keys, record keys and session ids (empty, slashes, the \x01 separator, internal
// prefixes, a dead session) must come back as per-operation statuses, never as an error; and the entries
// they leave behind must not break later deletes / overwrites of the same records either.
func ZZNoInfraErrorFull(shape, a, b int) {
	m := &zzKV{}
	d, _ := kv.NewDB("zz", 1, &zzFactory{kv: m}, 0, nil)
	sid := int64(1)
	dead := int64(77)
	_, err := d.ProcessWrite(&proto.WriteRequest{Puts: []*proto.PutRequest{
		{Key: SessionKey(1), Value: []byte("meta")},
		{Key: "e", Value: []byte("v"), SessionId: &sid, SecondaryIndexes: []*proto.SecondaryIndex{{IndexName: "i", SecondaryKey: "s"}}},
		{Key: "plain", Value: []byte("v")}}}, 0, 10, WrapperUpdateOperationCallback)
	vAssert("setup", err == nil)
	x, y := zzOddStrings[a], zzOddStrings[b]
	req := &proto.WriteRequest{}
	follow := &proto.WriteRequest{}
	switch shape {
	case 0: // put with an awkward index name / secondary key, then overwrite and delete it
		req.Puts = append(req.Puts, &proto.PutRequest{Key: "r", Value: []byte("v"), SecondaryIndexes: []*proto.SecondaryIndex{{IndexName: x, SecondaryKey: y}}})
		follow.Puts = append(follow.Puts, &proto.PutRequest{Key: "r", Value: []byte("w"), SecondaryIndexes: []*proto.SecondaryIndex{{IndexName: y, SecondaryKey: x}}})
		follow.Deletes = append(follow.Deletes, &proto.DeleteRequest{Key: "r"})
	case 1: // ephemeral put with an awkward key (live session), then delete-range over it
		req.Puts = append(req.Puts, &proto.PutRequest{Key: x, Value: []byte("v"), SessionId: &sid, SecondaryIndexes: []*proto.SecondaryIndex{{IndexName: "i", SecondaryKey: y}}})
		follow.DeleteRanges = append(follow.DeleteRanges, &proto.DeleteRangeRequest{StartInclusive: "", EndExclusive: "\xff\xff"})
	case 2: // ephemeral put under a session that does not exist; delete of records with derived keys
		req.Puts = append(req.Puts, &proto.PutRequest{Key: x, Value: []byte("v"), SessionId: &dead})
		req.Deletes = append(req.Deletes, &proto.DeleteRequest{Key: "e"})
		req.Deletes = append(req.Deletes, &proto.DeleteRequest{Key: y})
	case 3: // overwrite of the ephemeral indexed record by a plain put with other indexes; ranges with awkward bounds
		req.Puts = append(req.Puts, &proto.PutRequest{Key: "e", Value: []byte("w"), SecondaryIndexes: []*proto.SecondaryIndex{{IndexName: x, SecondaryKey: "k"}, {IndexName: x, SecondaryKey: "k"}}})
		req.DeleteRanges = append(req.DeleteRanges, &proto.DeleteRangeRequest{StartInclusive: x, EndExclusive: y})
	case 4: // the SAME index pair listed twice (the client library does not de-duplicate), then overwrite, delete, range
		req.Puts = append(req.Puts, &proto.PutRequest{Key: "r", Value: []byte("v"), SecondaryIndexes: []*proto.SecondaryIndex{{IndexName: x, SecondaryKey: y}, {IndexName: x, SecondaryKey: y}}})
		follow.Puts = append(follow.Puts, &proto.PutRequest{Key: "r", Value: []byte("w"), SecondaryIndexes: []*proto.SecondaryIndex{{IndexName: x, SecondaryKey: y}, {IndexName: x, SecondaryKey: y}}})
		follow.Deletes = append(follow.Deletes, &proto.DeleteRequest{Key: "r"})
		follow.DeleteRanges = append(follow.DeleteRanges, &proto.DeleteRangeRequest{StartInclusive: "q", EndExclusive: "s"})
	}
	_, err = d.ProcessWrite(req, 1, 11, WrapperUpdateOperationCallback)
	internalRange := shape == 3 && err != nil
	if vKnown("KF-C13-range-over-internal-keys", internalRange) {
		vAssert("per-operation-status-not-error", err == nil)
	} else {
		vAssert("per-operation-status-not-error", err == nil)
	}
	if err == nil && (len(follow.Puts) > 0 || len(follow.Deletes) > 0 || len(follow.DeleteRanges) > 0) {
		_, err = d.ProcessWrite(follow, 2, 12, WrapperUpdateOperationCallback)
		if vKnown("KF-C13-range-over-internal-keys", shape == 1 && err != nil) {
			vAssert("later-request-on-the-same-records-not-error", err == nil)
		} else {
			vAssert("later-request-on-the-same-records-not-error", err == nil)
		}
	}
	vReach("end")
}
