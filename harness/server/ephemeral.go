package server

import (
	"time"
	"context"
	"strings"

	"github.com/oxia-db/oxia/proto"
	"github.com/oxia-db/oxia/server/kv"
)

var zzUKeys = []string{"a", "b/c"}

type zzIdx struct{ name, sk string }

var zzIdxDecls = []zzIdx{{"i1", "x"}, {"i1", "y"}, {"i2", "x"}}

// record state codes: 0 absent, 1 plain, 2 owned by session 1, 3 session 1 + index (i1,x),
// 4 plain + index (i1,x), 5 session 2 + index (i2,x) + index (i1,y)
func zzRecordPut(key string, code int) *proto.PutRequest {
	p := &proto.PutRequest{Key: key, Value: []byte("v")}
	s1, s2 := int64(1), int64(2)
	switch code {
	case 2:
		p.SessionId = &s1
	case 3:
		p.SessionId = &s1
		p.SecondaryIndexes = []*proto.SecondaryIndex{{IndexName: "i1", SecondaryKey: "x"}}
	case 4:
		p.SecondaryIndexes = []*proto.SecondaryIndex{{IndexName: "i1", SecondaryKey: "x"}}
	case 5:
		p.SessionId = &s2
		p.SecondaryIndexes = []*proto.SecondaryIndex{{IndexName: "i2", SecondaryKey: "x"}, {IndexName: "i1", SecondaryKey: "y"}}
	}
	return p
}

func zzHas(m *zzKV, key string) bool {
	_, _, _, err := m.Get(key, kv.ComparisonEqual)
	return err == nil
}

func zzEntryOf(m *zzKV, key string) *proto.StorageEntry {
	_, v, _, err := m.Get(key, kv.ComparisonEqual)
	if err != nil {
		return nil
	}
	se := &proto.StorageEntry{}
	_ = se.UnmarshalVT(v)
	return se
}

// zzCheckDerived: the derived internal keys are exactly what the live records declare:
//
//	record k owned by session s  <=>  shadow key (s,k) exists
//	record k declares (index, secondary key)  <=>  the index entry exists
//
// and there are no other shadow or index keys.
func zzCheckDerived(m *zzKV, tag string) {
	shadows, idxs := 0, 0
	for _, k := range zzUKeys {
		se := zzEntryOf(m, k)
		for sid := int64(1); sid <= 3; sid++ {
			owned := se != nil && se.SessionId != nil && *se.SessionId == sid
			vAssert(tag+":shadow-iff-owned", zzHas(m, ShadowKey(SessionId(sid), k)) == owned)
			if owned {
				shadows++
				vAssert(tag+":owner-session-exists", zzHas(m, SessionKey(SessionId(sid))))
			}
		}
		for _, d := range zzIdxDecls {
			declared := false
			if se != nil {
				for _, si := range se.SecondaryIndexes {
					if si.IndexName == d.name && si.SecondaryKey == d.sk {
						declared = true
					}
				}
			}
			ik := secondaryIndexKey(k, &proto.SecondaryIndex{IndexName: d.name, SecondaryKey: d.sk})
			vAssert(tag+":index-entry-iff-declared", zzHas(m, ik) == declared)
			if declared {
				idxs++
			}
		}
	}
	gotShadows, gotIdx := 0, 0
	for _, e := range m.ents {
		if strings.HasPrefix(e.k, sessionKeyPrefix+"/") && strings.Count(e.k, "/") >= 3 {
			gotShadows++
		}
		if strings.HasPrefix(e.k, secondaryIdxKeyPrefix+"/") {
			gotIdx++
		}
	}
	vAssert(tag+":no-stray-shadow-keys", gotShadows == shadows)
	vAssert(tag+":no-stray-index-entries", gotIdx == idxs)
}

func zzSessionDB(stA, stB int) (*zzKV, kv.DB) {
	m := &zzKV{}
	d, _ := kv.NewDB("zz", 1, &zzFactory{kv: m}, 0, nil)
	// sessions 1 and 2 exist, session 3 does not
	setup := &proto.WriteRequest{Puts: []*proto.PutRequest{{Key: SessionKey(1), Value: []byte("m")}, {Key: SessionKey(2), Value: []byte("m")}}}
	_, err := d.ProcessWrite(setup, 0, 10, WrapperUpdateOperationCallback)
	vAssert("setup-sessions", err == nil)
	req := &proto.WriteRequest{}
	for i, st := range []int{stA, stB} {
		if st != 0 {
			req.Puts = append(req.Puts, zzRecordPut(zzUKeys[i], st))
		}
	}
	res, err := d.ProcessWrite(req, 1, 11, WrapperUpdateOperationCallback)
	vAssert("setup-records", err == nil)
	for _, p := range res.Puts {
		vAssert("setup-put-ok", p.Status == proto.Status_OK)
	}
	return m, d
}

// ZZDerivedStep (C14 + C15): from a state built by real puts (two records, each in one of six
// ownership/index configurations) ONE further request through the real ProcessWrite with the real
// session and secondary-index callbacks; the derived keys must again be exactly what the live records
// declare. op: 0..5 = overwrite key A as configuration op; 6 = put A under the missing session 3;
// 7 = delete A; 8 = delete-range over A; 9 = delete-range over B; 10 = delete B;
// 11 = overwrite B plain; 12 = both records overwritten in one request, swapping configurations.
func ZZDerivedStep(stA, stB, op int) {
	m, d := zzSessionDB(stA, stB)
	zzCheckDerived(m, "pre")
	req := &proto.WriteRequest{}
	s3 := int64(3)
	switch {
	case op <= 5:
		if op == 0 {
			req.Deletes = append(req.Deletes, &proto.DeleteRequest{Key: "a"})
		} else {
			req.Puts = append(req.Puts, zzRecordPut("a", op))
		}
	case op == 6:
		p := zzRecordPut("a", 4)
		p.SessionId = &s3
		req.Puts = append(req.Puts, p)
	case op == 7:
		req.Deletes = append(req.Deletes, &proto.DeleteRequest{Key: "a"})
	case op == 8:
		req.DeleteRanges = append(req.DeleteRanges, &proto.DeleteRangeRequest{StartInclusive: "a", EndExclusive: "b"})
	case op == 9:
		req.DeleteRanges = append(req.DeleteRanges, &proto.DeleteRangeRequest{StartInclusive: "b/", EndExclusive: "b/d"})
	case op == 10:
		req.Deletes = append(req.Deletes, &proto.DeleteRequest{Key: "b/c"})
	case op == 11:
		req.Puts = append(req.Puts, zzRecordPut("b/c", 1))
	default:
		req.Puts = append(req.Puts, zzRecordPut("a", stB), zzRecordPut("b/c", 3))
	}
	before := len(m.ents)
	seA := zzEntryOf(m, "a")
	res, err := d.ProcessWrite(req, 2, 12, WrapperUpdateOperationCallback)
	vAssert("no-error", err == nil)
	if err != nil {
		return
	}
	if op == 6 {
		vAssert("dead-session-rejected", res.Puts[0].Status == proto.Status_SESSION_DOES_NOT_EXIST)
		after := zzEntryOf(m, "a")
		vAssert("rejected-put-changes-nothing", (seA == nil) == (after == nil) && (seA == nil || seA.VersionId == after.VersionId))
		vAssert("rejected-put-adds-no-keys", len(m.ents) == before+1) // only the notification batch
	}
	if op >= 1 && op <= 5 {
		vAssert("put-ok", res.Puts[0].Status == proto.Status_OK)
		se := zzEntryOf(m, "a")
		want := zzRecordPut("a", op)
		vAssert("ownership-follows-last-writer", (se.SessionId == nil) == (want.SessionId == nil) && (se.SessionId == nil || *se.SessionId == *want.SessionId))
	}
	zzCheckDerived(m, "post")
	vAssert("sessions-untouched", zzHas(m, SessionKey(1)) && zzHas(m, SessionKey(2)))
	vReach("end")
}

// ZZRangeThreshold (C12/C14/C15): a delete-range over n plain records plus one ephemeral, indexed
// record placed last in the range (n = 99, 100, 101 straddle DeleteRangeThreshold): both deletion
// strategies must remove the records AND their derived keys.
func ZZRangeThreshold(n int) {
	m := &zzKV{}
	d, _ := kv.NewDB("zz", 1, &zzFactory{kv: m}, 0, nil)
	s1 := int64(1)
	setup := &proto.WriteRequest{Puts: []*proto.PutRequest{{Key: SessionKey(1), Value: []byte("m")}}}
	for i := 0; i < n; i++ {
		setup.Puts = append(setup.Puts, &proto.PutRequest{Key: "r" + string(rune('0'+i/100)) + string(rune('0'+(i/10)%10)) + string(rune('0'+i%10)), Value: []byte("v")})
	}
	setup.Puts = append(setup.Puts, &proto.PutRequest{Key: "rz", Value: []byte("v"), SessionId: &s1, SecondaryIndexes: []*proto.SecondaryIndex{{IndexName: "i1", SecondaryKey: "x"}}})
	setup.Puts = append(setup.Puts, &proto.PutRequest{Key: "s", Value: []byte("v"), SessionId: &s1})
	_, err := d.ProcessWrite(setup, 0, 10, WrapperUpdateOperationCallback)
	vAssert("setup", err == nil)
	vAssert("setup-shadow", zzHas(m, ShadowKey(1, "rz")))
	_, err = d.ProcessWrite(&proto.WriteRequest{DeleteRanges: []*proto.DeleteRangeRequest{{StartInclusive: "r", EndExclusive: "rzz"}}}, 1, 11, WrapperUpdateOperationCallback)
	vAssert("range-ok", err == nil)
	vAssert("records-removed", !zzHas(m, "r000") && !zzHas(m, "rz"))
	vAssert("shadow-of-removed-ephemeral-removed", !zzHas(m, ShadowKey(1, "rz")))
	vAssert("index-entry-of-removed-record-removed", !zzHas(m, secondaryIndexKey("rz", &proto.SecondaryIndex{IndexName: "i1", SecondaryKey: "x"})))
	vAssert("record-outside-range-untouched", zzHas(m, "s") && zzHas(m, ShadowKey(1, "s")))
	vReach("end")
}

// ZZSessionClose (C14): on a serving leader (RF 1) a session is created through the real session
// manager, writes an ephemeral record, another client writes a plain record and (variant 1) takes over
// the ephemeral record; then the session is closed explicitly — or expires: its timer may fire at any
// schedule point. Whatever the schedule: when the session is gone, no record owned by it is left, its
// session key and shadow keys are gone, derived keys are consistent, and records it does not own are
// untouched.
func ZZSessionClose(variant int) {
	w, m := zzLeaderState(1, 0)
	lc := zzLeaderOver(w, m, 3, &zzRpc{})
	_, err := lc.BecomeLeader(context.Background(), &proto.BecomeLeaderRequest{Term: 3, ReplicationFactor: 1})
	vAssert("became-leader", err == nil)
	cs, err := lc.CreateSession(&proto.CreateSessionRequest{Shard: 1, SessionTimeoutMs: 5000, ClientIdentity: "c"})
	vAssert("session-created", err == nil)
	if err != nil {
		return
	}
	sid := cs.SessionId
	sess, _ := lc.sessionManager.(*sessionManager).sessions.Get(SessionId(sid))
	r1, err := lc.WriteBlock(context.Background(), &proto.WriteRequest{Puts: []*proto.PutRequest{
		{Key: "e", Value: []byte("v"), SessionId: &sid},
		{Key: "b/c+d%", Value: []byte("v"), SessionId: &sid}}})
	// the expiry path is itself a concurrent writer: a write that fails because of the known write-path
	// race (KF-C08) ends the scenario
	if vKnown("KF-C08-concurrent-writers-reach-wal-out-of-order", err != nil) {
		vAssert("ephemeral-write-ok", err == nil)
	}
	alive := r1.Puts[0].Status == proto.Status_OK
	r2, err := lc.WriteBlock(context.Background(), &proto.WriteRequest{Puts: []*proto.PutRequest{{Key: "b/c d%", Value: []byte("p")}}})
	if vKnown("KF-C08-concurrent-writers-reach-wal-out-of-order", err != nil) {
		vAssert("plain-write-ok", err == nil)
	}
	vAssert("plain-write-status", r2.Puts[0].Status == proto.Status_OK)
	if variant == 1 {
		// another client takes the record over with a plain put
		r3, err := lc.WriteBlock(context.Background(), &proto.WriteRequest{Puts: []*proto.PutRequest{{Key: "e", Value: []byte("mine")}}})
		if vKnown("KF-C08-concurrent-writers-reach-wal-out-of-order", err != nil) {
			vAssert("takeover-ok", err == nil)
		}
		vAssert("takeover-status", r3.Puts[0].Status == proto.Status_OK)
	}
	expiredEarly := sess.ctx.Err() != nil // the expiry timer fired while this client was still writing
	_, cerr := lc.CloseSession(&proto.CloseSessionRequest{Shard: 1, SessionId: sid})
	if cerr != nil {
		// the session expired on its own: wait until its goroutine has finished the clean-up
		vReach("already-expired")
		sess.latch.Wait()
	} else {
		vReach("closed")
	}
	_ = alive
	// the session is gone now, one way or the other
	mm := m
	if vKnown("KF-C08-concurrent-writers-reach-wal-out-of-order", w.rejected > 0) {
		// a clean-up write was refused by the WAL because of the write-path race: the session's data stays
		vAssert("session-key-removed", !zzHas(mm, SessionKey(SessionId(sid))))
		vReach("end")
		return
	}
	vAssert("session-key-removed", !zzHas(mm, SessionKey(SessionId(sid))))
	vAssert("shadow-keys-removed", !zzHas(mm, ShadowKey(SessionId(sid), "e")) && !zzHas(mm, ShadowKey(SessionId(sid), "b/c+d%")))
	vAssert("plain-record-untouched", zzHas(mm, "b/c d%"))
	se := zzEntryOf(mm, "e")
	if vKnown("KF-C14-expiry-lists-then-deletes", expiredEarly || cerr != nil) {
		vAssert("owned-record-removed", !zzHas(mm, "b/c+d%"))
		if variant == 1 {
			vAssert("taken-over-record-survives", se != nil && se.SessionId == nil)
		} else {
			vAssert("owned-record-removed-2", se == nil)
		}
	} else {
		vAssert("owned-record-removed", !zzHas(mm, "b/c+d%"))
		if variant == 1 {
			vAssert("taken-over-record-survives", se != nil && se.SessionId == nil)
		} else {
			vAssert("owned-record-removed-2", se == nil)
		}
	}
	vReach("end")
}

// ZZSessionRearm (C14): sessions are replicated state. A node whose DB holds n sessions (one with an
// ephemeral record) becomes leader: every stored session — and nothing else — is re-armed on the new
// leader (it can be kept alive and closed), a session that was never created is unknown, and closing a
// re-armed session removes exactly its records. Timers do not fire in this harness (no heartbeat is
// missed), so nothing may expire.
func ZZSessionRearm(n int) {
	w := zzNewWal("l")
	m := &zzKV{}
	d, _ := kv.NewDB("zz", 1, &zzFactory{kv: m}, 0, nil)
	setup := &proto.WriteRequest{}
	for i := 1; i <= n; i++ {
		// every session has its own timeout and client identity
		md := &proto.SessionMetadata{TimeoutMs: uint32(5000 + 1000*i), Identity: "c" + string(rune('0'+i))}
		mb, _ := md.MarshalVT()
		setup.Puts = append(setup.Puts, &proto.PutRequest{Key: SessionKey(SessionId(i)), Value: mb})
	}
	s1 := int64(1)
	setup.Puts = append(setup.Puts, &proto.PutRequest{Key: "e", Value: []byte("v"), SessionId: &s1}, &proto.PutRequest{Key: "plain", Value: []byte("v")})
	lev := &proto.LogEntryValue{Value: &proto.LogEntryValue_Requests{Requests: &proto.WriteRequests{Writes: []*proto.WriteRequest{setup}}}}
	b, _ := lev.MarshalVT()
	_ = w.AppendAsync(&proto.LogEntry{Term: 2, Offset: 0, Value: b, Timestamp: 100})
	w.lastSynced = w.lastAppended
	_, err := d.ProcessWrite(setup, 0, 100, WrapperUpdateOperationCallback)
	vAssert("setup", err == nil)
	lc := zzLeaderOver(w, m, 3, &zzRpc{})
	_, err = lc.BecomeLeader(context.Background(), &proto.BecomeLeaderRequest{Term: 3, ReplicationFactor: 1})
	vAssert("became-leader", err == nil)
	sm := lc.sessionManager.(*sessionManager)
	vAssert("exactly-the-stored-sessions-are-rearmed", sm.sessions.Size() == n)
	for i := 1; i <= n; i++ {
		vAssert("stored-session-rearmed", lc.KeepAlive(int64(i)) == nil)
		if ss, ok := sm.sessions.Get(SessionId(i)); ok {
			vAssert("rearmed-with-its-own-timeout-and-identity", ss.timeout == time.Duration(5000+1000*i)*time.Millisecond && ss.clientIdentity == "c"+string(rune('0'+i)))
		}
	}
	vAssert("unknown-session-not-invented", lc.KeepAlive(int64(n+1)) != nil)
	_, cerr := lc.CloseSession(&proto.CloseSessionRequest{Shard: 1, SessionId: 1})
	vAssert("rearmed-session-can-be-closed", cerr == nil)
	vAssert("its-record-is-removed", !zzHas(m, "e") && !zzHas(m, SessionKey(1)) && !zzHas(m, ShadowKey(1, "e")))
	vAssert("others-untouched", zzHas(m, "plain") && (n < 2 || zzHas(m, SessionKey(2))))
	vReach("end")
}

func zzFullEntry(kind int) *proto.WriteRequest {
	s1 := int64(1)
	switch kind {
	case 0:
		return &proto.WriteRequest{Puts: []*proto.PutRequest{{Key: SessionKey(1), Value: []byte("m")}}}
	case 1:
		return &proto.WriteRequest{Puts: []*proto.PutRequest{{Key: "e", Value: []byte("v"), SessionId: &s1, SecondaryIndexes: []*proto.SecondaryIndex{{IndexName: "i1", SecondaryKey: "x"}}}}}
	case 2:
		return &proto.WriteRequest{Puts: []*proto.PutRequest{{Key: "e", Value: []byte("w")}}}
	case 3:
		return &proto.WriteRequest{Deletes: []*proto.DeleteRequest{{Key: "e"}}}
	case 4:
		return &proto.WriteRequest{DeleteRanges: []*proto.DeleteRangeRequest{{StartInclusive: "a", EndExclusive: "f"}}}
	default:
		return &proto.WriteRequest{Puts: []*proto.PutRequest{{Key: "b/c", Value: []byte("v"), SessionId: &s1, SecondaryIndexes: []*proto.SecondaryIndex{{IndexName: "i1", SecondaryKey: "y"}}}}}
	}
}

// ZZReplayFull (C06/C07): like the kv-level replay-equivalence harness, but through the real wrapper
// callback (sessions + secondary indexes): replica A applies a 3-entry log live; replica B is flushed
// after `flushed` entries, crashes after `crashAt`, reopens through the real NewDB and replays from its
// commit offset + 1. All keys (records, shadows, index entries, notifications, counters) and the
// records' metadata must be identical.
func ZZReplayFull(e0, e1, e2, flushed, crashAt int) {
	kinds := []int{e0, e1, e2}
	ma, mb := &zzKV{}, &zzKV{}
	da, _ := kv.NewDB("zz", 1, &zzFactory{kv: ma}, 0, nil)
	dbb, _ := kv.NewDB("zz", 1, &zzFactory{kv: mb}, 0, nil)
	for i, k := range kinds {
		_, err := da.ProcessWrite(zzFullEntry(k), int64(i), uint64(100+i), WrapperUpdateOperationCallback)
		vAssert("live-apply-ok", err == nil)
	}
	for i := 0; i < crashAt; i++ {
		_, err := dbb.ProcessWrite(zzFullEntry(kinds[i]), int64(i), uint64(100+i), WrapperUpdateOperationCallback)
		vAssert("apply-ok", err == nil)
		if i+1 == flushed {
			_ = mb.Flush()
		}
	}
	if flushed == 0 {
		mb.durable = nil
	}
	mb.zzCrash()
	dbb, _ = kv.NewDB("zz", 1, &zzFactory{kv: mb}, 0, nil)
	c, err := dbb.ReadCommitOffset()
	vAssert("commit-offset-is-last-durable-entry", err == nil && c == int64(flushed)-1)
	for i := int(c) + 1; i < 3; i++ {
		_, err := dbb.ProcessWrite(zzFullEntry(kinds[i]), int64(i), uint64(100+i), WrapperUpdateOperationCallback)
		vAssert("replay-apply-ok", err == nil)
	}
	vAssert("same-number-of-keys", len(ma.ents) == len(mb.ents))
	if len(ma.ents) != len(mb.ents) {
		return
	}
	for i := range ma.ents {
		vAssert("same-keys", ma.ents[i].k == mb.ents[i].k)
		k := ma.ents[i].k
		if k == "e" || k == "b/c" || k == SessionKey(1) {
			ea, eb := zzEntryOf(ma, k), zzEntryOf(mb, k)
			vAssert("same-version", ea.VersionId == eb.VersionId && ea.ModificationsCount == eb.ModificationsCount)
			vAssert("same-timestamps", ea.CreationTimestamp == eb.CreationTimestamp && ea.ModificationTimestamp == eb.ModificationTimestamp)
			vAssert("same-owner", (ea.SessionId == nil) == (eb.SessionId == nil))
			vAssert("same-index-declarations", len(ea.SecondaryIndexes) == len(eb.SecondaryIndexes))
		}
	}
	ca, _ := da.ReadCommitOffset()
	cb, _ := dbb.ReadCommitOffset()
	vAssert("same-commit-offset", ca == cb)
	vReach("end")
}
