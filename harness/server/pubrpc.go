package server

import (
	"context"
	"log/slog"

	"google.golang.org/grpc"
	"google.golang.org/grpc/status"

	"github.com/oxia-db/oxia/common/constant"
	"github.com/oxia-db/oxia/proto"
	"github.com/oxia-db/oxia/server/kv"
	"github.com/oxia-db/oxia/server/wal"
)

// per-shard storage for a node that hosts several shards
type zzMultiWalFactory struct{ w map[int64]*zzWal }

func (f *zzMultiWalFactory) Close() error { return nil }
func (f *zzMultiWalFactory) NewWal(_ string, shard int64, _ wal.CommitOffsetProvider) (wal.Wal, error) {
	f.w[shard].closed = false
	return f.w[shard], nil
}

type zzMultiKVFactory struct{ m map[int64]*zzKV }

func (f *zzMultiKVFactory) Close() error { return nil }
func (f *zzMultiKVFactory) NewKV(_ string, shard int64) (kv.KV, error) {
	f.m[shard].closed = false
	return f.m[shard], nil
}
func (f *zzMultiKVFactory) NewSnapshotLoader(string, int64) (kv.SnapshotLoader, error) {
	return nil, errZZNoSnapshot
}

var errZZNoSnapshot = status.Error(13, "zz: no snapshot in this harness")

type zzReadSrv struct {
	grpc.ServerStream
	ctx  context.Context
	gets []*proto.GetResponse
}

func (s *zzReadSrv) Context() context.Context { return s.ctx }
func (s *zzReadSrv) Send(r *proto.ReadResponse) error {
	s.gets = append(s.gets, r.Gets...)
	return nil
}

type zzListSrv struct {
	grpc.ServerStream
	ctx  context.Context
	keys []string
}

func (s *zzListSrv) Context() context.Context { return s.ctx }
func (s *zzListSrv) Send(r *proto.ListResponse) error {
	s.keys = append(s.keys, r.Keys...)
	return nil
}

type zzScanSrv struct {
	grpc.ServerStream
	ctx  context.Context
	recs []*proto.GetResponse
}

func (s *zzScanSrv) Context() context.Context { return s.ctx }
func (s *zzScanSrv) Send(r *proto.RangeScanResponse) error {
	s.recs = append(s.recs, r.Records...)
	return nil
}

// ZZPublicRouting (C02 "a node answers only for shards it leads", C18 "client and server agree on the shard"):
// a NODE's public entry points (the real publicRpcServer Read / List / RangeScan / Write over the real shards
// director) on a node that LEADS shards 1 and 4 (record "k" holds the shard's own id, so an answer shows which
// shard's state it came from), hosts shard 2 as a FOLLOWER, has a FENCED leader controller for shard 3 and does
// not know shard 9. A request names a symbolic shard out of {1, 2, 3, 4, 9} and a symbolic operation: it is
// answered from exactly the named shard's state when the node leads it; in every other case it is refused with an
// error (never an empty success, never another shard's data) and no log grows.
func ZZPublicRouting() {
	wf := &zzMultiWalFactory{w: map[int64]*zzWal{}}
	kf := &zzMultiKVFactory{m: map[int64]*zzKV{}}
	for _, sh := range []int64{1, 2, 3, 4} {
		wf.w[sh] = zzNewWal("w")
		kf.m[sh] = &zzKV{}
		d, _ := kv.NewDB("zz", sh, kf, 0, nil)
		_, _ = d.ProcessWrite(&proto.WriteRequest{Puts: []*proto.PutRequest{{Key: "k", Value: []byte{byte(sh)}}}}, 0, 1, WrapperUpdateOperationCallback)
		_ = wf.w[sh].AppendAsync(zzPutEntry(0, 2, byte(sh)))
		wf.w[sh].lastSynced = wf.w[sh].lastAppended
		_ = d.UpdateTerm(3, kv.TermOptions{})
	}
	sd := NewShardsDirector(zzConfig(), wf, kf, &zzRpc{}).(*shardsDirector)
	ctx := context.Background()
	for _, sh := range []int64{1, 4} {
		l, err := sd.GetOrCreateLeader("zz", sh)
		vAssert("leader-controller", err == nil)
		_, err = l.BecomeLeader(ctx, &proto.BecomeLeaderRequest{Namespace: "zz", Shard: sh, Term: 3, ReplicationFactor: 1})
		vAssert("leading", err == nil)
	}
	_, err := sd.GetOrCreateFollower("zz", 2, 3)
	vAssert("follower-controller", err == nil)
	_, err = sd.GetOrCreateLeader("zz", 3) // restarts FENCED in its stored term, never elected
	vAssert("fenced-leader-controller", err == nil)
	srv := &publicRpcServer{shardsDirector: sd, log: slog.Default()}

	shards := []int64{1, 2, 3, 4, 9}
	shard := shards[vChoice("shard", 5)]
	leads := shard == 1 || shard == 4
	appends := map[int64]int{}
	for sh, w := range wf.w {
		appends[sh] = w.appends
	}
	switch vChoice("op", 4) {
	case 0:
		st := &zzReadSrv{ctx: ctx}
		rerr := srv.Read(&proto.ReadRequest{Shard: &shard, Gets: []*proto.GetRequest{{Key: "k", IncludeValue: true}}}, st)
		if leads {
			vAssert("read-served-from-the-named-shard", rerr == nil && len(st.gets) == 1 && st.gets[0].Status == proto.Status_OK && st.gets[0].Value[0] == byte(shard))
		} else {
			vAssert("read-refused", rerr != nil && len(st.gets) == 0)
			vAssert("refusal-tells-the-client-to-look-elsewhere", status.Code(rerr) == constant.CodeNodeIsNotLeader || status.Code(rerr) == constant.CodeInvalidStatus)
		}
	case 1:
		st := &zzListSrv{ctx: ctx}
		lerr := srv.List(&proto.ListRequest{Shard: &shard, StartInclusive: "a", EndExclusive: "z"}, st)
		if leads {
			vAssert("list-served", lerr == nil && len(st.keys) == 1 && st.keys[0] == "k")
		} else {
			vAssert("list-refused", lerr != nil && len(st.keys) == 0)
		}
	case 2:
		st := &zzScanSrv{ctx: ctx}
		serr := srv.RangeScan(&proto.RangeScanRequest{Shard: &shard, StartInclusive: "a", EndExclusive: "z"}, st)
		if leads {
			vAssert("scan-served-from-the-named-shard", serr == nil && len(st.recs) == 1 && st.recs[0].Value[0] == byte(shard))
		} else {
			vAssert("scan-refused", serr != nil && len(st.recs) == 0)
		}
	case 3:
		res, werr := srv.Write(ctx, &proto.WriteRequest{Shard: &shard, Puts: []*proto.PutRequest{{Key: "n", Value: []byte{7}}}})
		if leads {
			vAssert("write-served", werr == nil && res != nil && res.Puts[0].Status == proto.Status_OK)
			vAssert("written-to-the-named-shard's-log-only", wf.w[shard].appends == appends[shard]+1)
			appends[shard]++
		} else {
			vAssert("write-refused", werr != nil && res == nil)
		}
	}
	for sh, w := range wf.w {
		vAssert("no-other-log-grows", w.appends == appends[sh])
	}
	vReach("end")
}
