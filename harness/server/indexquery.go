package server

import (
	"github.com/oxia-db/oxia/common/compare"
	"github.com/oxia-db/oxia/proto"
	"github.com/oxia-db/oxia/server/kv"
)

var zzSecKeys = []string{"b", "d", "f"}
var zzQueryKeys = []string{"a", "b", "c", "d", "e", "f", "g"}

// ZZIndexQuery (C15): get (equal / floor / ceiling / lower / higher), list and range-scan on secondary
// index "i1" through the real secondaryIndexGet / newSecondaryIndexListIterator /
// newSecondaryIndexRangeScanIterator, over a DB (real ProcessWrite with the real callbacks) that holds
// a subset (mask) of three i1 entries, plus entries with the same secondary keys in the neighbouring
// indexes "i0" and "i2" and in indexes whose names extend / are extended by the queried name ("i1-x", "i"), a session and user keys. The answer must come from i1 and equal the answer of
// a sorted reference of i1's entries.
func ZZIndexQuery(mask, q, ct int) {
	m := &zzKV{}
	d, _ := kv.NewDB("zz", 1, &zzFactory{kv: m}, 0, nil)
	req := &proto.WriteRequest{Puts: []*proto.PutRequest{{Key: SessionKey(1), Value: []byte("m")}}}
	var present []int
	for i, sk := range zzSecKeys {
		pk := "p+%" + string(rune('1'+i))
		idx := []*proto.SecondaryIndex{{IndexName: "i0", SecondaryKey: sk}, {IndexName: "i2", SecondaryKey: sk}, {IndexName: "i1-x", SecondaryKey: sk}, {IndexName: "i", SecondaryKey: sk}}
		if mask&(1<<i) != 0 {
			idx = append(idx, &proto.SecondaryIndex{IndexName: "i1", SecondaryKey: sk})
			present = append(present, i)
		}
		req.Puts = append(req.Puts, &proto.PutRequest{Key: pk, Value: []byte("v"), SecondaryIndexes: idx})
	}
	_, err := d.ProcessWrite(req, 0, 10, WrapperUpdateOperationCallback)
	vAssert("setup", err == nil)
	name := "i1"
	qk := zzQueryKeys[q]
	// reference: index of the expected entry among zzSecKeys, or -1
	exp := -1
	for _, i := range present {
		c := compare.CompareWithSlash([]byte(zzSecKeys[i]), []byte(qk))
		switch proto.KeyComparisonType(ct) {
		case proto.KeyComparisonType_EQUAL:
			if c == 0 {
				exp = i
			}
		case proto.KeyComparisonType_FLOOR:
			if c <= 0 {
				exp = i
			}
		case proto.KeyComparisonType_LOWER:
			if c < 0 {
				exp = i
			}
		case proto.KeyComparisonType_CEILING:
			if c >= 0 && exp == -1 {
				exp = i
			}
		case proto.KeyComparisonType_HIGHER:
			if c > 0 && exp == -1 {
				exp = i
			}
		}
	}
	gr, err := secondaryIndexGet(&proto.GetRequest{Key: qk, SecondaryIndexName: &name, ComparisonType: proto.KeyComparisonType(ct)}, d)
	vAssert("get-no-error", err == nil)
	if err == nil {
		if exp == -1 {
			vAssert("get-not-found", gr.Status == proto.Status_KEY_NOT_FOUND)
		} else {
			vAssert("get-found", gr.Status == proto.Status_OK)
			if gr.Status == proto.Status_OK {
				vAssert("get-returns-the-reference-record", gr.Key != nil && *gr.Key == "p+%"+string(rune('1'+exp)))
				vAssert("get-secondary-key", gr.SecondaryIndexKey != nil && *gr.SecondaryIndexKey == zzSecKeys[exp])
			}
		}
	}
	// list and range-scan over [qk, "g") on the index
	end := "g"
	it, err := newSecondaryIndexListIterator(&proto.ListRequest{StartInclusive: qk, EndExclusive: end, SecondaryIndexName: &name}, d)
	vAssert("list-ok", err == nil)
	var want []int
	for _, i := range present {
		if compare.CompareWithSlash([]byte(zzSecKeys[i]), []byte(qk)) >= 0 {
			want = append(want, i)
		}
	}
	n := 0
	for ; it.Valid(); it.Next() {
		vAssert("list-within-reference", n < len(want))
		if n < len(want) {
			vAssert("list-entry", it.Key() == "p+%"+string(rune('1'+want[n])))
		}
		n++
	}
	vAssert("list-complete", n == len(want))
	rit, err := newSecondaryIndexRangeScanIterator(&proto.RangeScanRequest{StartInclusive: qk, EndExclusive: end, SecondaryIndexName: &name}, d)
	vAssert("scan-ok", err == nil)
	n = 0
	for ; rit.Valid(); rit.Next() {
		g, gerr := rit.Value()
		vAssert("scan-record-readable", gerr == nil && g.Status == proto.Status_OK)
		if n < len(want) && gerr == nil {
			vAssert("scan-entry", *g.Key == "p+%"+string(rune('1'+want[n])))
		}
		n++
	}
	vAssert("scan-complete", n == len(want))
	vReach("end")
}
