package server

import (
	"context"

	"github.com/oxia-db/oxia/proto"
)

var zzPoisonKeys = []string{
	"__oxia/session/0000000000000001",          // shaped like a session key, value is not session metadata
	"__oxia/session/not-a-session-id",          // under the session prefix, not a session id
	"__oxia/session/0000000000000001/some%2Fk", // shaped like a shadow key of a session that does not exist
	"__oxia/idx/i/k\x01p",                      // shaped like a secondary-index entry
	"__oxia/notifications/00000000000000000000", // shaped like a notification batch
	"__oxia/term",
	"__oxia/term-options",
	"__oxia/last-version-id",
	"__oxia/commit-offset",
	"__oxia/unknown",
}

// ZZPoison (C13): nothing stops a client from writing keys under the internal prefix. A plain put of such a
// key (ten shapes) with a value that is NOT what oxia stores there is accepted, logged and applied on a
// serving leader. The shard must stay electable: the same node — restarted over the same WAL and DB — must be
// able to open its controllers, be fenced in a new term and become leader again (replaying nothing or the
// logged entry), and a follower opened over that state must start. An error anywhere here would stop every
// replica, since they all hold the same data.
func ZZPoison(ki, op int) {
	w, m := zzLeaderState(1, 0)
	lc := zzLeaderOver(w, m, 3, &zzRpc{})
	_, err := lc.BecomeLeader(context.Background(), &proto.BecomeLeaderRequest{Term: 3, ReplicationFactor: 1})
	vAssert("became-leader", err == nil)
	req := &proto.WriteRequest{}
	switch op {
	case 0:
		req.Puts = append(req.Puts, &proto.PutRequest{Key: zzPoisonKeys[ki], Value: []byte("garbage")})
	case 1:
		req.Deletes = append(req.Deletes, &proto.DeleteRequest{Key: zzPoisonKeys[ki]})
	}
	res, err := lc.WriteBlock(context.Background(), req)
	vAssert("request-answered-with-statuses", err == nil && res != nil)
	_ = lc.Close()
	w.closed, m.closed = false, false
	// restart as leader controller
	lci, err := NewLeaderController(zzConfig(), "zz", 1, &zzRpc{}, &zzWalFactory{w}, &zzFactory{kv: m})
	if vKnown("KF-C13-client-can-overwrite-term-keys", (ki == 5 || ki == 6) && op == 0) {
		vAssert("node-restarts", err == nil)
	} else {
		vAssert("node-restarts", err == nil)
	}
	if err != nil {
		return
	}
	lc2 := lci.(*leaderController)
	_, err = lc2.NewTerm(&proto.NewTermRequest{Namespace: "zz", Shard: 1, Term: 4})
	vAssert("node-can-be-fenced-in-a-new-term", err == nil)
	_, err = lc2.BecomeLeader(context.Background(), &proto.BecomeLeaderRequest{Namespace: "zz", Shard: 1, Term: 4, ReplicationFactor: 1})
	vAssert("node-can-become-leader-again", err == nil)
	r2, err := lc2.WriteBlock(context.Background(), &proto.WriteRequest{Puts: []*proto.PutRequest{{Key: "after", Value: []byte("v")}}})
	vAssert("shard-still-accepts-writes", err == nil && r2.Puts[0].Status == proto.Status_OK)
	_ = lc2.Close()
	w.closed, m.closed = false, false
	fci, err := NewFollowerController(zzConfig(), "zz", 1, &zzWalFactory{w}, &zzFactory{kv: m})
	vAssert("follower-opens-over-the-same-state", err == nil)
	if err == nil {
		_ = fci.Close()
	}
	vReach("end")
}
