package server

import (
	"context"
	"io"

	"google.golang.org/grpc"

	"github.com/oxia-db/oxia/proto"
	"github.com/oxia-db/oxia/server/kv"
)

// ---- model Replicate stream (server side). The oracle lives in Send: an Ack is checked the moment the
// follower emits it.

type zzGhost struct {
	term []int64 // leader log of the current term's leader: term and value id per offset
	val  []byte
}

type zzRepStream struct {
	grpc.ServerStream
	ctx    context.Context
	in     chan *proto.Append
	w      *zzWal
	ghost  *zzGhost
	acks   []int64
	payloadIsEntry bool // the entries carry marshalled write requests: the oracle compares terms only
	noAckOracle    bool // the harness is about the apply side only (C07): acknowledgements are just recorded
	fenced bool  // set by the harness once NewTerm of a higher term has been answered
	head   int64 // head offset reported in that NewTerm response
}

func (s *zzRepStream) Context() context.Context { return s.ctx }
func (s *zzRepStream) Recv() (*proto.Append, error) {
	m, ok := <-s.in
	if !ok {
		return nil, io.EOF
	}
	return m, nil
}
func (s *zzRepStream) Send(a *proto.Ack) error {
	o := a.Offset
	if s.noAckOracle {
		s.acks = append(s.acks, o)
		return nil
	}
	if vKnown("KF-C04-late-ack-of-reported-entry", s.fenced && o <= s.head) {
		// the sync loop of the old stream may still acknowledge an entry that the NewTerm response
		// already reported as part of the log
		vAssert("no-ack-after-answering-a-higher-term", !s.fenced)
	} else {
		vAssert("no-ack-after-answering-a-higher-term", !s.fenced)
	}
	vAssert("acked-offset-is-in-the-log", o >= s.w.first && o <= s.w.lastAppended)
	if o >= s.w.first && o <= s.w.lastAppended {
		if vKnown("KF-C03-duplicate-acked-before-sync", o > s.w.lastSynced && len(s.acks) >= 0) {
			vAssert("acked-offset-is-synced", o <= s.w.lastSynced)
		} else {
			vAssert("acked-offset-is-synced", o <= s.w.lastSynced)
		}
		e := s.w.at(o)
		vAssert("acked-entry-has-leaders-term", e.term == s.ghost.term[o])
		if s.payloadIsEntry {
			s.acks = append(s.acks, o)
			return nil
		}
		vAssert("acked-entry-has-leaders-payload", e.value[0] == s.ghost.val[o])
		// and so has every earlier offset the leader of this term knows about
		for p := s.w.first; p < o; p++ {
			vAssert("prefix-of-acked-offset-matches-leader", s.w.at(p).term == s.ghost.term[p] && s.w.at(p).value[0] == s.ghost.val[p])
		}
	}
	s.acks = append(s.acks, o)
	return nil
}

func zzConfig() Config { return Config{} }

// zzFollowerOver builds a real follower controller (real constructor, real DB) over a model WAL and
// model KV holding `n` synced entries of the ghost log and the persisted term.
func zzFollowerOver(w *zzWal, m *zzKV, term int64) *followerController {
	d, err := kv.NewDB("zz", 1, &zzFactory{kv: m}, 0, nil)
	vAssert("db-open", err == nil)
	if term >= 0 {
		vAssert("term-store", d.UpdateTerm(term, kv.TermOptions{}) == nil)
	}
	fc, err := NewFollowerController(zzConfig(), "zz", 1, &zzWalFactory{w}, &zzFactory{kv: m})
	vAssert("follower-open", err == nil)
	return fc.(*followerController)
}

// ZZFollowerStream (C03): a follower that holds the first n entries of the leader's log receives, on one
// Replicate stream of the leader of its term, k in-order Append messages starting at an arbitrary
// re-send point s <= n (re-deliveries of entries it already has, then new ones). The real
// handleServerStream / append / handleReplicateSync goroutines run against the model stream; every Ack
// they emit is checked against the leader's log and the WAL's synced prefix.
func ZZFollowerStream(n, k, unsynced int) {
	total := n + k
	g := &zzGhost{term: make([]int64, total), val: vBytes("payload", total)}
	T := int64(3)
	prev := int64(1)
	for i := 0; i < total; i++ {
		g.term[i] = prev + int64(vChoice("termstep", 2))
		vAssume(g.term[i] <= T)
		prev = g.term[i]
	}
	w := zzNewWal("f")
	for i := 0; i < n; i++ {
		_ = w.AppendAsync(&proto.LogEntry{Term: g.term[i], Offset: int64(i), Value: []byte{g.val[i]}})
	}
	w.lastSynced = w.lastAppended
	m := &zzKV{}
	fc := zzFollowerOver(w, m, T)
	if unsynced == 1 && n > 0 {
		// state left by an earlier stream of the same process that broke between AppendAsync and Sync:
		// the last entry is appended but not synced
		w.lastSynced = w.lastAppended - 1
		vAssert("constructor-head", fc.lastAppendedOffset == w.lastAppended)
	}
	vAssert("restarts-fenced", fc.status == proto.ServingStatus_FENCED)
	vAssert("restarts-in-stored-term", fc.term == T)

	st := &zzRepStream{ctx: context.Background(), in: make(chan *proto.Append, 8), w: w, ghost: g}
	done := make(chan error, 1)
	vGo("replicate", func() { done <- fc.Replicate(st) })

	s := vChoice("resend-from", n+1) // first offset sent on this stream
	cnt := 0
	for o := s; o < total && cnt < k; o++ {
		st.in <- &proto.Append{Term: T, Entry: &proto.LogEntry{Term: g.term[o], Offset: int64(o), Value: []byte{g.val[o]}}, CommitOffset: int64(s) - 1}
		cnt++
	}
	close(st.in)
	<-done
	// quiescence of the stream handler: everything sent is stored, in order
	vAssert("log-contiguous-from-zero", w.first <= 0 || n == 0)
	for o := int64(0); o <= w.lastAppended; o++ {
		vAssert("stored-entry-is-leaders-entry", w.at(o).term == g.term[o] && w.at(o).value[0] == g.val[o])
	}
	vAssert("head-tracks-wal", fc.lastAppendedOffset == w.lastAppended)
	vReach("end")
}

// ZZFollowerNewTerm (C04, follower side): from a follower in term T whose last entry may still be
// unsynced, the real NewTerm(T2) with arbitrary T2: lower terms are rejected and change nothing; on
// success the node is FENCED, the term is persisted (DB flushed) before the response, the reported
// head is exactly the end of the log, and afterwards a message of the old term neither grows the log
// nor produces an acknowledgement.
func ZZFollowerNewTerm(n, unsynced int) {
	g := &zzGhost{term: make([]int64, n+1), val: vBytes("payload", n+1)}
	T := int64(3)
	for i := range g.term {
		g.term[i] = T
	}
	w := zzNewWal("f")
	for i := 0; i < n; i++ {
		_ = w.AppendAsync(&proto.LogEntry{Term: T, Offset: int64(i), Value: []byte{g.val[i]}})
	}
	w.lastSynced = w.lastAppended
	m := &zzKV{}
	fc := zzFollowerOver(w, m, T)
	if unsynced == 1 && n > 0 {
		w.lastSynced = w.lastAppended - 1
	}
	st := &zzRepStream{ctx: context.Background(), in: make(chan *proto.Append, 8), w: w, ghost: g}
	T2 := vInt64("newTerm")
	vAssume(T2 >= 0)
	vAssume(T2 < 100)
	flushesBefore := m.flushes
	resp, err := fc.NewTerm(&proto.NewTermRequest{Namespace: "zz", Shard: 1, Term: T2})
	if T2 < T {
		vAssert("lower-term-rejected", err != nil)
		vAssert("term-unchanged", fc.term == T)
		vReach("rejected")
	} else {
		vAssert("accepted", err == nil)
		vAssert("fenced", fc.status == proto.ServingStatus_FENCED)
		vAssert("term-adopted", fc.term == T2)
		pt, _, perr := fc.db.ReadTerm()
		vAssert("term-persisted", perr == nil && pt == T2)
		vAssert("term-flushed-before-response", m.flushes > flushesBefore)
		if n == 0 {
			vAssert("empty-log-reported", resp.HeadEntryId.Offset == -1)
		} else if vKnown("KF-C04-follower-head-lags-unsynced-tail", w.lastSynced < w.lastAppended) {
			vAssert("reported-head-is-end-of-log", resp.HeadEntryId.Offset == w.lastAppended)
		} else {
			vAssert("reported-head-is-end-of-log", resp.HeadEntryId.Offset == w.lastAppended)
			vAssert("reported-head-term", resp.HeadEntryId.Term == T)
		}
		vReach("fenced")
	}
	if err == nil && T2 > T {
		st.fenced = true
		before := w.appends
		aerr := fc.append(&proto.Append{Term: T, Entry: &proto.LogEntry{Term: T, Offset: int64(n), Value: []byte{g.val[n]}}, CommitOffset: -1}, st)
		vAssert("old-term-append-rejected", aerr != nil)
		vAssert("log-does-not-grow", w.appends == before)
		if n > 0 {
			// a RE-SENT entry of the deposed leader (offset already in the log): no acknowledgement on behalf of the old term
			acksBefore := len(st.acks)
			st.noAckOracle = true
			derr := fc.append(&proto.Append{Term: T, Entry: &proto.LogEntry{Term: T, Offset: 0, Value: []byte{g.val[0]}}, CommitOffset: -1}, st)
			st.noAckOracle = false
			vAssert("old-term-duplicate-refused-and-not-acknowledged", derr != nil && len(st.acks) == acksBefore)
		}
		_, terr := fc.Truncate(&proto.TruncateRequest{Term: T, HeadEntryId: &proto.EntryId{Term: T, Offset: 0}})
		vAssert("old-term-truncate-rejected", terr != nil)
		// the leader of the new term attaches the node (Truncate -> FOLLOWER): a late message of the deposed
		// leader must still be refused
		if T2 < 50 {
			hd := resp.HeadEntryId
			_, terr = fc.Truncate(&proto.TruncateRequest{Term: T2, HeadEntryId: hd})
			vAssert("new-leader-attaches", terr == nil && fc.status == proto.ServingStatus_FOLLOWER)
			w.frozen = false
			before = w.appends
			nxt := w.lastAppended + 1
			aerr = fc.append(&proto.Append{Term: T, Entry: &proto.LogEntry{Term: T, Offset: nxt, Value: []byte{7}}, CommitOffset: -1}, st)
			vAssert("old-term-append-rejected-while-following-the-new-leader", aerr != nil)
			vAssert("log-does-not-grow-for-the-old-term", w.appends == before)
		}
	}
	vReach("end")
}

// ---- snapshot installation

type zzSnapStream struct {
	grpc.ServerStream
	chunks []*proto.SnapshotChunk
	pos    int
	resp   *proto.SnapshotResponse
	closed int
}

func (s *zzSnapStream) Context() context.Context { return context.Background() }
func (s *zzSnapStream) Recv() (*proto.SnapshotChunk, error) {
	if s.pos >= len(s.chunks) {
		return nil, io.EOF
	}
	c := s.chunks[s.pos]
	s.pos++
	return c, nil
}
func (s *zzSnapStream) SendAndClose(r *proto.SnapshotResponse) error {
	s.resp = r
	s.closed++
	return nil
}

// ZZFollowerSnapshot (C03 / C04): a follower in term T with n log entries receives a snapshot stream
// whose chunks carry an arbitrary term. A snapshot of another term must be refused and must leave the
// node's log and database alone; an accepted one leaves an empty WAL, the snapshot's commit offset as
// head and commit offset, and the term persisted before the response.
func ZZFollowerSnapshot(n, fenced int) {
	T := int64(3)
	w := zzNewWal("f")
	for i := 0; i < n; i++ {
		_ = w.AppendAsync(zzPutEntry(i, 2, byte(i)))
	}
	w.lastSynced = w.lastAppended
	m := &zzKV{}
	// the snapshot: a database whose commit offset is 7
	sm := &zzKV{}
	sd, _ := kv.NewDB("zz", 1, &zzFactory{kv: sm}, 0, nil)
	_, _ = sd.ProcessWrite(&proto.WriteRequest{Puts: []*proto.PutRequest{{Key: "s", Value: []byte{1}}}}, 7, 100, WrapperUpdateOperationCallback)
	d, _ := kv.NewDB("zz", 1, &zzFactory{kv: m}, 0, nil)
	_ = d.UpdateTerm(T, kv.TermOptions{})
	fci, err := NewFollowerController(zzConfig(), "zz", 1, &zzWalFactory{w}, &zzFactory{kv: m, snap: sm.ents})
	vAssert("open", err == nil)
	fc := fci.(*followerController)
	if fenced == 0 {
		_, terr := fc.Truncate(&proto.TruncateRequest{Term: T, HeadEntryId: &proto.EntryId{Term: 2, Offset: int64(n - 1)}})
		vAssert("following", terr == nil && fc.status == proto.ServingStatus_FOLLOWER)
	}
	ct := vInt64("chunkTerm")
	vAssume(ct >= 0)
	vAssume(ct < 100)
	st := &zzSnapStream{chunks: []*proto.SnapshotChunk{{Term: ct, Name: "f", ChunkIndex: 0, ChunkCount: 1, Content: []byte{1}}}}
	serr := fc.SendSnapshot(st)
	if ct != T {
		vReach("other-term")
		vAssert("snapshot-of-another-term-refused", serr != nil && st.closed == 0)
		vAssert("term-unchanged", fc.term == T)
		wipedLog := w.lastAppended != int64(n-1)
		// the coordinator re-sends NewTerm for the term the node is already in: the answer is only given
		// with that term durable, so that a restart cannot bring the node back below it
		_, nerr := fc.NewTerm(&proto.NewTermRequest{Namespace: "zz", Shard: 1, Term: T})
		vAssert("same-term-new-term-accepted", nerr == nil)
		_ = fc.Close()
		w.closed, m.closed = false, false
		fc2i, rerr := NewFollowerController(zzConfig(), "zz", 1, &zzWalFactory{w}, &zzFactory{kv: m, snap: sm.ents})
		vAssert("node-restarts", rerr == nil)
		if rerr == nil {
			vAssert("term-never-decreases-across-a-restart", fc2i.(*followerController).term == T)
		}
		if vKnown("KF-C04-stale-snapshot-wipes-log", wipedLog) {
			vAssert("refused-snapshot-leaves-log-alone", !wipedLog)
		} else {
			vAssert("refused-snapshot-leaves-log-alone", !wipedLog)
		}
	} else {
		vReach("installed")
		vAssert("accepted", serr == nil && st.closed == 1)
		vAssert("ack-is-snapshot-commit-offset", st.resp.AckOffset == 7)
		vAssert("wal-emptied", w.lastAppended == -1)
		vAssert("head-and-commit-are-the-snapshot's", fc.lastAppendedOffset == 7 && fc.commitOffset.Load() == 7)
		pt, _, perr := fc.db.ReadTerm()
		vAssert("term-persisted", perr == nil && pt == T)
		gr, gerr := fc.db.Get(&proto.GetRequest{Key: "s", IncludeValue: true})
		vAssert("snapshot-content-installed", gerr == nil && gr.Status == proto.Status_OK)
	}
	vReach("end")
}

// ZZFollowerRace (C04): the stream handler (one in-flight Append of the current term), the sync loop
// and a NewTerm of a higher term run concurrently; every mutex acquisition and every WAL sync is a
// preemption point. Once NewTerm has answered, the log must not grow, nothing beyond the reported head
// may be acknowledged, and at quiescence the reported head is the end of the log.
func ZZFollowerRace(n int) {
	T := int64(3)
	g := &zzGhost{term: make([]int64, n+1), val: vBytes("payload", n+1)}
	for i := range g.term {
		g.term[i] = T
	}
	w := zzNewWal("f")
	for i := 0; i < n; i++ {
		_ = w.AppendAsync(&proto.LogEntry{Term: T, Offset: int64(i), Value: []byte{g.val[i]}})
	}
	w.lastSynced = w.lastAppended
	w.racy = true
	fc := zzFollowerOver(w, &zzKV{}, T)
	st := &zzRepStream{ctx: context.Background(), in: make(chan *proto.Append, 2), w: w, ghost: g}
	done := make(chan error, 1)
	vGo("replicate", func() { done <- fc.Replicate(st) })
	st.in <- &proto.Append{Term: T, Entry: &proto.LogEntry{Term: T, Offset: int64(n), Value: []byte{g.val[n]}}, CommitOffset: -1}
	resp, err := fc.NewTerm(&proto.NewTermRequest{Term: T + 1})
	vAssert("fenced-ok", err == nil)
	if err != nil {
		return
	}
	st.head = resp.HeadEntryId.Offset
	st.fenced = true
	w.frozen = true
	vAssert("reported-head-is-end-of-log-at-response", resp.HeadEntryId.Offset == w.lastAppended)
	close(st.in)
	<-done
	vAssert("status-stays-fenced", fc.status == proto.ServingStatus_FENCED)
	vAssert("log-end-is-the-reported-head", w.lastAppended == st.head)
	vReach("end")
}
// ZZFollowerQueued (C04): an Append of the current term and a NewTerm of a higher term are both queued
// behind the controller mutex (held by a third party) and are then admitted in either order. Whatever
// the order, once NewTerm has answered the log does not grow and the reported head is the end of the
// log. order = which request is queued first (FIFO hand-off makes both admission orders reproducible
// natively; the engine explores both anyway).
func ZZFollowerQueued(n, order int) {
	T := int64(3)
	g := &zzGhost{term: make([]int64, n+1), val: vBytes("payload", n+1)}
	for i := range g.term {
		g.term[i] = T
	}
	w := zzNewWal("f")
	for i := 0; i < n; i++ {
		_ = w.AppendAsync(&proto.LogEntry{Term: T, Offset: int64(i), Value: []byte{g.val[i]}})
	}
	w.lastSynced = w.lastAppended
	fc := zzFollowerOver(w, &zzKV{}, T)
	st := &zzRepStream{ctx: context.Background(), in: make(chan *proto.Append, 2), w: w, ghost: g}
	doneA, doneB := make(chan error, 1), make(chan bool, 1)
	msg := &proto.Append{Term: T, Entry: &proto.LogEntry{Term: T, Offset: int64(n), Value: []byte{g.val[n]}}, CommitOffset: -1}
	appendFn := func() { doneA <- fc.append(msg, st) }
	newTermFn := func() {
		resp, err := fc.NewTerm(&proto.NewTermRequest{Term: T + 1})
		if err == nil {
			st.head = resp.HeadEntryId.Offset
			st.fenced = true
			w.frozen = true
			vAssert("reported-head-is-end-of-log-at-response", st.head == w.lastAppended)
		}
		doneB <- err == nil
	}
	fc.Lock()
	if order == 0 {
		vGo("append", appendFn)
		vSleep(30)
		vGo("newterm", newTermFn)
	} else {
		vGo("newterm", newTermFn)
		vSleep(30)
		vGo("append", appendFn)
	}
	vSleep(30)
	fc.Unlock()
	aerr := <-doneA
	ok := <-doneB
	vAssert("new-term-accepted", ok)
	vAssert("log-end-is-the-reported-head", w.lastAppended == st.head)
	vAssert("status-stays-fenced", fc.status == proto.ServingStatus_FENCED)
	if aerr == nil {
		vReach("append-admitted-first")
	} else {
		vReach("append-rejected")
	}
	vReach("end")
}

// ZZFollowerSyncWindow (C03, C01): the follower's durability path when appends keep arriving WHILE a WAL sync is
// in flight: a sync covers what had been appended when it started, not what lands during it. The real stream
// handler / append / handleReplicateSync goroutines receive k pipelined entries; every Ack the follower emits is
// checked at that moment: the offset is covered by a completed sync (an acknowledged entry survives a crash of
// this follower) and holds the leader's entry.
func ZZFollowerSyncWindow(n, k int) {
	total := n + k
	T := int64(3)
	g := &zzGhost{term: make([]int64, total), val: vBytes("payload", total)}
	for i := range g.term {
		g.term[i] = T
	}
	w := zzNewWal("f")
	for i := 0; i < n; i++ {
		_ = w.AppendAsync(&proto.LogEntry{Term: T, Offset: int64(i), Value: []byte{g.val[i]}})
	}
	w.lastSynced = w.lastAppended
	w.syncWindow = true
	fc := zzFollowerOver(w, &zzKV{}, T)
	st := &zzRepStream{ctx: context.Background(), in: make(chan *proto.Append, 8), w: w, ghost: g}
	done := make(chan error, 1)
	vGo("replicate", func() { done <- fc.Replicate(st) })
	for o := n; o < total; o++ {
		st.in <- &proto.Append{Term: T, Entry: &proto.LogEntry{Term: T, Offset: int64(o), Value: []byte{g.val[o]}}, CommitOffset: -1}
		vYield("leader-sends")
	}
	vSettle(30)
	close(st.in)
	<-done
	for _, a := range st.acks {
		vAssert("only-received-entries-are-acknowledged", a >= int64(n) && a < int64(total))
	}
	vReach("end")
}
