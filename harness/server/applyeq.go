package server

import (
	"context"

	"github.com/oxia-db/oxia/proto"
)

// ZZApplyPathsAgree (C06): the SAME committed log applied along the two paths a replica can take — the leader's
// replay when it is elected (applyAllEntriesIntoDB) and the follower's apply loop (processCommittedEntries) — over
// two empty stores. The entries exercise every kind of derived state: a session, an ephemeral record, secondary
// indexes that are re-pointed by an overwrite, a delete of an indexed record, a delete-range. Afterwards the two
// stores hold exactly the same keys (records, session shadows, index entries, bookkeeping keys) and the same
// answers for every record: value, version id, modifications count, timestamps, session.
func ZZApplyPathsAgree(n int) {
	sid := int64(1)
	reqs := []*proto.WriteRequest{
		{Puts: []*proto.PutRequest{{Key: SessionKey(1), Value: []byte("meta")}}},
		{Puts: []*proto.PutRequest{{Key: "r", Value: []byte{1}, SecondaryIndexes: []*proto.SecondaryIndex{{IndexName: "i", SecondaryKey: "s1"}}}}},
		{Puts: []*proto.PutRequest{{Key: "r", Value: []byte{2}, SecondaryIndexes: []*proto.SecondaryIndex{{IndexName: "i", SecondaryKey: "s2"}, {IndexName: "j", SecondaryKey: "t"}}}}},
		{Puts: []*proto.PutRequest{{Key: "e", Value: []byte{3}, SessionId: &sid, SecondaryIndexes: []*proto.SecondaryIndex{{IndexName: "i", SecondaryKey: "s3"}}}}},
		{Puts: []*proto.PutRequest{{Key: "q", Value: []byte{4}, SecondaryIndexes: []*proto.SecondaryIndex{{IndexName: "i", SecondaryKey: "s4"}}}}, Deletes: []*proto.DeleteRequest{{Key: "q"}}},
		{Puts: []*proto.PutRequest{{Key: "z1", Value: []byte{5}, SecondaryIndexes: []*proto.SecondaryIndex{{IndexName: "i", SecondaryKey: "s5"}}}, {Key: "z2", Value: []byte{6}}},
			DeleteRanges: []*proto.DeleteRangeRequest{{StartInclusive: "z1", EndExclusive: "z2"}}},
	}
	mk := func() (*zzWal, *zzKV) {
		w := zzNewWal("w")
		for i := 0; i < n; i++ {
			lev := &proto.LogEntryValue{Value: &proto.LogEntryValue_Requests{Requests: &proto.WriteRequests{Writes: []*proto.WriteRequest{reqs[i]}}}}
			b, _ := lev.MarshalVT()
			_ = w.AppendAsync(&proto.LogEntry{Term: 2, Offset: int64(i), Value: b, Timestamp: uint64(100 + i)})
		}
		w.lastSynced = w.lastAppended
		return w, &zzKV{}
	}
	w1, m1 := mk()
	lc := zzLeaderOver(w1, m1, 3, &zzRpc{})
	_, err := lc.BecomeLeader(context.Background(), &proto.BecomeLeaderRequest{Namespace: "zz", Shard: 1, Term: 3, ReplicationFactor: 1})
	vAssert("leader-replayed-the-log", err == nil)
	w2, m2 := mk()
	fc := zzFollowerOver(w2, m2, 3)
	vAssert("follower-applied-the-log", fc.processCommittedEntries(int64(n-1)) == nil)
	vAssert("same-number-of-keys", len(m1.ents) == len(m2.ents))
	for i := range m1.ents {
		if i < len(m2.ents) {
			vAssert("same-keys", m1.ents[i].k == m2.ents[i].k)
		}
	}
	for _, k := range []string{"r", "e", "q", "z1", "z2"} {
		g1, e1 := lc.db.Get(&proto.GetRequest{Key: k, IncludeValue: true})
		g2, e2 := fc.db.Get(&proto.GetRequest{Key: k, IncludeValue: true})
		vAssert("get-ok", e1 == nil && e2 == nil)
		vAssert("same-status", g1.Status == g2.Status)
		if g1.Status == proto.Status_OK && g2.Status == proto.Status_OK {
			vAssert("same-record", g1.Value[0] == g2.Value[0] && g1.Version.VersionId == g2.Version.VersionId &&
				g1.Version.ModificationsCount == g2.Version.ModificationsCount &&
				g1.Version.CreatedTimestamp == g2.Version.CreatedTimestamp && g1.Version.ModifiedTimestamp == g2.Version.ModifiedTimestamp &&
				(g1.Version.SessionId == nil) == (g2.Version.SessionId == nil))
		}
	}
	c1, _ := lc.db.ReadCommitOffset()
	c2, _ := fc.db.ReadCommitOffset()
	vAssert("same-commit-offset", c1 == c2 && c1 == int64(n-1))
	vReach("end")
}
