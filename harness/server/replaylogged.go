package server

import (
	"context"

	"github.com/oxia-db/oxia/common/compare"

	"github.com/oxia-db/oxia/proto"
)

// ZZReplayLogged (C13): a request that is IN THE LOG but not yet applied on this node (a follower is always a step
// behind; a restarted leader replays from its DB's commit offset) carries awkward strings a client can put on the
// wire — the gRPC layer and the WAL use the vtprotobuf codec, which accepts any bytes in string fields: invalid
// UTF-8, the \x01 separator, internal prefixes, the empty string. shape 0: a put of such a key with such a
// secondary key; 1: a delete of it; 2: a delete-range bounded by them. Whoever has to apply the entry must be able
// to: the node elected leader (BecomeLeader's replay), and a follower's apply loop. An error here depends only on
// the request's content, so every replica would fail on it, in every later term.
func ZZReplayLogged(shape, a, b int) {
	x, y := zzOddStrings[a], zzOddStrings[b]
	req := &proto.WriteRequest{}
	switch shape {
	case 0:
		req.Puts = append(req.Puts, &proto.PutRequest{Key: x, Value: []byte("v"), SecondaryIndexes: []*proto.SecondaryIndex{{IndexName: "i", SecondaryKey: y}}})
	case 1:
		req.Deletes = append(req.Deletes, &proto.DeleteRequest{Key: x})
	case 2:
		req.DeleteRanges = append(req.DeleteRanges, &proto.DeleteRangeRequest{StartInclusive: x, EndExclusive: y})
	}
	mk := func() (*zzWal, *zzKV) {
		w, m := zzLeaderState(1, 0)
		lev := &proto.LogEntryValue{Value: &proto.LogEntryValue_Requests{Requests: &proto.WriteRequests{Writes: []*proto.WriteRequest{req}}}}
		bts, err := lev.MarshalVT()
		vAssert("the-wal-codec-accepts-the-request", err == nil)
		_ = w.AppendAsync(&proto.LogEntry{Term: 2, Offset: 1, Value: bts, Timestamp: 101})
		w.lastSynced = w.lastAppended
		return w, m
	}
	// the node that is elected replays the entry
	w, m := mk()
	lc := zzLeaderOver(w, m, 3, &zzRpc{})
	_, err := lc.BecomeLeader(context.Background(), &proto.BecomeLeaderRequest{Namespace: "zz", Shard: 1, Term: 3, ReplicationFactor: 1})
	// the listed finding about delete-ranges that cover internal keys (in slash order) is a different matter
	coversInternalKey := false
	for _, k := range []string{"__oxia/commit-offset", "__oxia/term", "__oxia/last-version-id", "__oxia/notifications/00000000000000000000"} {
		if compare.CompareWithSlash([]byte(x), []byte(k)) <= 0 && compare.CompareWithSlash([]byte(k), []byte(y)) < 0 {
			coversInternalKey = true // the range covers an internal key
		}
	}
	internalRange := shape == 2 && err != nil && coversInternalKey
	if vKnown("KF-C13-range-over-internal-keys", internalRange) {
		vAssert("elected-node-can-replay-the-logged-request", err == nil)
	} else {
		vAssert("elected-node-can-replay-the-logged-request", err == nil)
	}
	if err == nil {
		co, _ := lc.db.ReadCommitOffset()
		vAssert("replayed", co == 1)
	}
	// a follower applies it when the leader tells it the entry is committed
	w2, m2 := mk()
	fc := zzFollowerOver(w2, m2, 3)
	ferr := fc.processCommittedEntries(1)
	if vKnown("KF-C13-range-over-internal-keys", shape == 2 && ferr != nil && coversInternalKey) {
		vAssert("follower-can-apply-the-logged-request", ferr == nil)
	} else {
		vAssert("follower-can-apply-the-logged-request", ferr == nil)
	}
	vReach("end")
}
