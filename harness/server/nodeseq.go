package server

import (
	"context"
	"log/slog"

	"google.golang.org/grpc/metadata"

	"github.com/oxia-db/oxia/proto"
	"github.com/oxia-db/oxia/server/kv"
)

// ZZNodeSequence (C04, C05): a NODE — the real internalRpcServer entry points over the real shards director,
// which creates, closes and re-creates the real leader / follower controllers over one persistent (model) WAL
// and KV store — receives a sequence of `steps` coordinator / leader requests, each of a symbolic kind
// (NewTerm, BecomeLeader, Truncate, AddFollower, GetStatus, or a SendSnapshot stream of another term arriving at a
// leader controller) carrying a symbolic term. After every request:
//   - the node's term (the controller's, and the one read back from the DB) never decreases;
//   - a NewTerm / BecomeLeader / Truncate / AddFollower naming a term BELOW the node's term is refused and
//     changes neither term nor role nor log;
//   - a successful NewTerm(t) leaves the node FENCED in term t with t > the previous term, or t == it on a
//     node that was not leading, and reports the node's true log head;
//   - a successful BecomeLeader(t) happens only on a node fenced in exactly term t, and a node that leads
//     stops leading only through a request whose term is not below its own (the director swaps one controller
//     for the other by closing it and re-creating the other from the stored state: for the node that is a
//     restart, it comes back FENCED in its stored term);
//   - the shard never has a leader controller and a follower controller at the same time, and GetStatus
//     reports the term and role of the one that exists.
func ZZNodeSequence(steps int) {
	w, m := zzLeaderState(2, 1)
	d0, _ := kv.NewDB("zz", 1, &zzFactory{kv: m}, 0, nil)
	_ = d0.UpdateTerm(2, kv.TermOptions{})
	sd := NewShardsDirector(zzConfig(), &zzWalFactory{w}, &zzFactory{kv: m}, &zzRpc{}).(*shardsDirector)
	srv := &internalRpcServer{shardsDirector: sd, log: slog.Default()}
	ctx := context.Background()
	cur := int64(2)
	role := proto.ServingStatus_FENCED // a restarted node with a stored term is fenced
	leading := false
	ctl := 0 // 0: no controller yet, 1: leader controller, 2: follower controller
	// The director replaces one controller by the other by closing it and constructing the other from the
	// stored state — for the node that is a restart: it comes back FENCED in its stored term.
	restartAs := func(c int) {
		if ctl != c {
			ctl, role, leading = c, proto.ServingStatus_FENCED, false
		}
	}
	for i := 0; i < steps; i++ {
		kind := vChoice("kind", 6)
		t := int64(vChoice("term", 5))
		head := w.lastAppended
		wasLeading, prev := leading, cur
		var err error
		switch kind {
		case 0:
			var r *proto.NewTermResponse
			r, err = srv.NewTerm(ctx, &proto.NewTermRequest{Namespace: "zz", Shard: 1, Term: t})
			if ctl != 2 {
				restartAs(1)
			}
			if err == nil {
				vAssert("newterm-accepted-only-for-a-term-not-below", t > cur || (t == cur && !leading))
				vAssert("newterm-reports-the-true-head", r.HeadEntryId != nil && r.HeadEntryId.Offset == head)
				cur, role, leading = t, proto.ServingStatus_FENCED, false
			} else {
				vAssert("newterm-refused-only-for-a-stale-or-repeated-term", t < cur || (t == cur && leading))
			}
		case 1:
			_, err = srv.BecomeLeader(ctx, &proto.BecomeLeaderRequest{Namespace: "zz", Shard: 1, Term: t, ReplicationFactor: 1})
			restartAs(1)
			if err == nil {
				vAssert("leader-only-from-fenced-in-exactly-that-term", t == cur && role == proto.ServingStatus_FENCED)
				role, leading = proto.ServingStatus_LEADER, true
			} else {
				vAssert("become-leader-refused-for-a-reason", t != cur || role != proto.ServingStatus_FENCED)
			}
		case 2:
			_, err = srv.Truncate(ctx, &proto.TruncateRequest{Namespace: "zz", Shard: 1, Term: t, HeadEntryId: &proto.EntryId{Term: 2, Offset: head}})
			if ctl != 1 || t == cur {
				restartAs(2) // a leader controller is given up only for a request of its own term
			}
			if err == nil {
				vAssert("truncate-only-in-the-node's-term-when-fenced", t == cur && role == proto.ServingStatus_FENCED)
				role, leading = proto.ServingStatus_FOLLOWER, false
			} else {
				vAssert("truncate-refused-for-a-reason", t != cur || role != proto.ServingStatus_FENCED)
			}
		case 3:
			_, err = srv.AddFollower(ctx, &proto.AddFollowerRequest{Namespace: "zz", Shard: 1, Term: t, FollowerName: "f9", FollowerHeadEntryId: &proto.EntryId{Term: 2, Offset: head}})
			if err == nil {
				vAssert("add-follower-only-on-the-leader-of-that-term", leading && t == cur)
			}
		case 5:
			// a snapshot stream whose headers (and chunk) name ANOTHER term than the node's reaches a node that
			// runs a leader controller (leading, or fenced by NewTerm): a late request must not replace the
			// controller, let alone touch log or database. (On a follower controller the same stream is the
			// listed finding KF-C04-stale-snapshot-wipes-log and is exercised by ZZFollowerSnapshot.)
			vAssume(ctl == 1 && t != cur)
			ts := "0"
			for v := int64(1); v < 5; v++ {
				if t == v {
					ts = string([]byte{byte('0' + v)})
				}
			}
			sctx := metadata.NewIncomingContext(context.Background(), metadata.Pairs("shard-id", "1", "namespace", "zz", "term", ts))
			sst := &zzSnapStreamCtx{zzSnapStream: zzSnapStream{chunks: []*proto.SnapshotChunk{{Term: t, Name: "f", ChunkIndex: 0, ChunkCount: 1, Content: []byte{1}}}}, ctx: sctx}
			err = srv.SendSnapshot(sst)
			vAssert("snapshot-of-another-term-refused-by-a-leader-controller", err != nil && sst.resp == nil)
			_, stillL := sd.leaders[1]
			vAssert("late-snapshot-does-not-replace-the-leader-controller", stillL)
		case 4:
			st, serr := srv.GetStatus(ctx, &proto.GetStatusRequest{Shard: 1})
			vAssert("status-available-once-a-controller-exists", (serr == nil) == (ctl != 0))
			if serr == nil {
				vAssert("status-reports-term-and-role", st.Term == cur && st.Status == role)
			}
		}
		vAssert("term-never-decreases", cur >= prev)
		if wasLeading && !leading {
			vAssert("leadership-ends-only-by-a-request-of-a-term-not-below", kind != 4 && t >= prev)
		}
		if kind != 4 && t < cur {
			vAssert("stale-term-refused", err != nil)
		}
		// node-level invariants, from the controllers and from what a restart would read
		l, hasL := sd.leaders[1]
		f, hasF := sd.followers[1]
		vAssert("never-leader-and-follower-controller-at-once", !(hasL && hasF))
		if hasL {
			lc := l.(*leaderController)
			vAssert("leader-controller-term-and-role", lc.term == cur && lc.status == role)
		}
		if hasF {
			fc := f.(*followerController)
			vAssert("follower-controller-term-and-role", fc.term == cur && fc.status == role)
		}
		if hasL || hasF {
			dbt, _, derr := zzStoredTerm(m)
			vAssert("stored-term-is-the-node's-term", derr == nil && dbt == cur)
		}
		vAssert("log-untouched-by-control-requests", w.lastAppended == head)
	}
	vReach("end")
}

type zzSnapStreamCtx struct {
	zzSnapStream
	ctx context.Context
}

func (s *zzSnapStreamCtx) Context() context.Context { return s.ctx }

func zzStoredTerm(m *zzKV) (int64, kv.TermOptions, error) {
	d, err := kv.NewDB("zz", 1, &zzFactory{kv: m}, 0, nil)
	if err != nil {
		return -1, kv.TermOptions{}, err
	}
	return d.ReadTerm()
}
