package server

import (
	"context"
	"log/slog"

	"google.golang.org/grpc/health"

	"github.com/oxia-db/oxia/proto"
)

type zzAssignClient struct {
	ctx  context.Context
	got  []*proto.ShardAssignments
	sent chan int
	// called while the FIRST message (the initial map) is being sent: the window between the dispatcher's
	// snapshot of the map and the client's first receive
	duringFirstSend func()
}

func (c *zzAssignClient) Send(a *proto.ShardAssignments) error {
	if len(c.got) == 0 && c.duringFirstSend != nil {
		f := c.duringFirstSend
		c.duringFirstSend = nil
		f()
	}
	c.got = append(c.got, a)
	c.sent <- len(c.got)
	return nil
}
func (c *zzAssignClient) Context() context.Context { return c.ctx }

func zzAssignments(gen int64, n int, other bool) *proto.ShardAssignments {
	a := &proto.ShardAssignments{Namespaces: map[string]*proto.NamespaceShardsAssignment{}}
	mk := func(base int64, n int) *proto.NamespaceShardsAssignment {
		ns := &proto.NamespaceShardsAssignment{ShardKeyRouter: proto.ShardKeyRouter_XXHASH3}
		step := uint64(1<<32) / uint64(n)
		for i := 0; i < n; i++ {
			lo := uint32(uint64(i) * step)
			hi := uint32(uint64(i+1)*step - 1)
			if i == n-1 {
				hi = 0xffffffff
			}
			ns.Assignments = append(ns.Assignments, &proto.ShardAssignment{Shard: base + int64(i), Leader: "l", ShardBoundaries: &proto.ShardAssignment_Int32HashRange{
				Int32HashRange: &proto.Int32HashRange{MinHashInclusive: lo, MaxHashInclusive: hi}}})
		}
		return ns
	}
	a.Namespaces["default"] = mk(gen, n)
	if other {
		a.Namespaces["other"] = mk(gen+100, 1)
	}
	return a
}

// ZZDispatcher (C18, server side): the real shardAssignmentDispatcher (updateShardAssignment fan-out with its
// cut-off of slow clients, RegisterForUpdates with namespace filtering) between coordinator pushes and one
// client of namespace "default". The coordinator pushes a first map, the client registers, the coordinator
// pushes `more` further maps (new shard ids, other shard counts, a second namespace coming and going) at
// arbitrary moments. Every message the client is sent contains its namespace only and is exactly that
// namespace's part of a map the coordinator pushed (so it partitions the hash space); messages arrive in
// push order; and when the client is still registered at quiescence, the last thing it was sent is the
// dispatcher's current map — a cut-off client learns the current map when it registers again.
func ZZDispatcher(more int) { zzDispatcher(more, false) }

// ZZDispatcherWindow (C18): the same, with one more map pushed by the coordinator exactly while the client's
// INITIAL message is being sent (after the dispatcher took its snapshot, before the client reads updates): the
// update must not fall into the gap — either it is delivered later or the client is cut off and learns it when it
// registers again; a client that stays registered with an older map than the dispatcher's would route keys to
// shards or leaders that no longer exist, indefinitely.
func ZZDispatcherWindow(more int) { zzDispatcher(more, true) }

func zzDispatcher(more int, window bool) {
	ctx, cancel := context.WithCancel(context.Background())
	s := &shardAssignmentDispatcher{healthServer: health.NewServer(), clients: map[int64]chan *proto.ShardAssignments{}, log: slog.Default(), ctx: ctx, cancel: cancel}
	pushed := []*proto.ShardAssignments{zzAssignments(0, 2, false)}
	vAssert("not-initialized-is-refused", s.RegisterForUpdates(&proto.ShardAssignmentsRequest{Namespace: "default"}, &zzAssignClient{ctx: ctx, sent: make(chan int, 8)}) != nil)
	vAssert("first-push", s.updateShardAssignment(pushed[0]) == nil)
	vAssert("unknown-namespace-is-refused", s.RegisterForUpdates(&proto.ShardAssignmentsRequest{Namespace: "nope"}, &zzAssignClient{ctx: ctx, sent: make(chan int, 8)}) != nil)
	cl := &zzAssignClient{ctx: ctx, sent: make(chan int, 16)}
	if window {
		cl.duringFirstSend = func() {
			a := zzAssignments(500, 3, false)
			pushed = append(pushed, a)
			vAssert("push-ok", s.updateShardAssignment(a) == nil)
		}
	}
	regDone := make(chan error, 1)
	vGo("client-stream", func() { regDone <- s.RegisterForUpdates(&proto.ShardAssignmentsRequest{}, cl) })
	<-cl.sent // the initial map
	for i := 1; i <= more; i++ {
		a := zzAssignments(int64(10*i), 1+i%3, i%2 == 1)
		pushed = append(pushed, a)
		vAssert("push-ok", s.updateShardAssignment(a) == nil)
		vYield("coordinator-pushes")
	}
	vSettle(30)
	s.Lock()
	_, stillRegistered := s.clients[0]
	current := s.assignments
	s.Unlock()
	cancel()
	<-regDone
	vAssert("dispatcher-holds-the-last-pushed-map", current == pushed[len(pushed)-1])
	last := -1
	for _, m := range cl.got {
		vAssert("client-sees-only-its-namespace", len(m.Namespaces) == 1 && m.Namespaces["default"] != nil)
		idx := -1
		for j, p := range pushed {
			if m.Namespaces["default"] == p.Namespaces["default"] {
				idx = j
			}
		}
		vAssert("message-is-a-pushed-map-of-that-namespace", idx >= 0)
		vAssert("messages-arrive-in-push-order", idx > last || (idx == 0 && last == -1))
		last = idx
	}
	if stillRegistered {
		vAssert("a-client-that-stays-registered-has-the-current-map", last == len(pushed)-1)
		vReach("client-kept-up")
	} else {
		vReach("client-cut-off")
		cl2 := &zzAssignClient{ctx: context.Background(), sent: make(chan int, 4)}
		ctx2, cancel2 := context.WithCancel(context.Background())
		cl2.ctx = ctx2
		s.ctx = ctx2
		done2 := make(chan error, 1)
		vGo("client-stream-2", func() { done2 <- s.RegisterForUpdates(&proto.ShardAssignmentsRequest{}, cl2) })
		<-cl2.sent
		vAssert("reconnecting-client-learns-the-current-map", cl2.got[0].Namespaces["default"] == pushed[len(pushed)-1].Namespaces["default"])
		cancel2()
		<-done2
	}
	vReach("end")
}
