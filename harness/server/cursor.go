package server

import (
	"context"
	"errors"

	"google.golang.org/grpc"
	"google.golang.org/grpc/codes"
	"google.golang.org/grpc/status"

	"github.com/oxia-db/oxia/proto"
)

// ---- model of the leader -> follower Replicate stream (client side). The follower behind it stores and
// acknowledges every entry, in order. The oracle lives in Send: a message is checked the moment the real
// cursor emits it.

type zzCurStream struct {
	grpc.ClientStream
	ctx     context.Context
	w       *zzWal
	q       QuorumAckTracker
	term    int64
	next    int64 // offset the follower expects
	acks    chan int64
	sent    int
	allSent chan bool
	final   int64
}

func (s *zzCurStream) CloseSend() error { return nil }
func (s *zzCurStream) Send(a *proto.Append) error {
	vAssert("append-carries-the-cursor-term", a.Term == s.term)
	vAssert("entries-sent-in-order-without-gaps", a.Entry.Offset == s.next)
	if a.Entry.Offset >= s.w.first && a.Entry.Offset <= s.w.lastAppended {
		vAssert("sent-entry-is-the-leaders-entry", s.w.at(a.Entry.Offset).term == a.Entry.Term)
	} else {
		vAssert("sent-entry-exists-in-the-leaders-log", false)
	}
	// what the leader tells a follower to apply must be stored by a quorum
	vAssert("advertised-commit-offset-is-quorum-committed", a.CommitOffset <= s.q.CommitOffset())
	vAssert("advertised-commit-offset-not-beyond-head", a.CommitOffset <= s.q.HeadOffset())
	s.next = a.Entry.Offset + 1
	s.sent++
	s.acks <- a.Entry.Offset
	if a.Entry.Offset == s.final {
		s.allSent <- true
	}
	return nil
}
func (s *zzCurStream) Recv() (*proto.Ack, error) {
	select {
	case o := <-s.acks:
		return &proto.Ack{Offset: o}, nil
	case <-s.ctx.Done():
		return nil, status.Error(codes.Canceled, "zz: stream closed")
	}
}

type zzCurRpc struct{ st *zzCurStream }

func (r *zzCurRpc) GetReplicateStream(ctx context.Context, _ string, _ string, _ int64, term int64) (proto.OxiaLogReplication_ReplicateClient, error) {
	r.st.ctx = ctx
	r.st.term = term
	return r.st, nil
}
func (r *zzCurRpc) SendSnapshot(context.Context, string, string, int64, int64) (proto.OxiaLogReplication_SendSnapshotClient, error) {
	return nil, errors.New("zz: no snapshot in this harness")
}

// ZZFollowerCursor (C01 / C08): the REAL follower cursor (run / streamEntries / streamEntriesLoop /
// receiveAcks goroutines) of a leader with replication factor rf over a model WAL holding n entries, a real
// quorum tracker whose commit offset is symbolic, and a follower that has acknowledged a symbolic prefix.
// While the cursor streams, the leader appends k more entries. The follower acknowledges everything it
// gets; the other followers stay silent. Every Append the cursor emits is for the next offset, carries the
// leader's entry and the cursor's term, and advertises a commit offset that a quorum has really stored —
// with rf >= 4 one follower's acknowledgements alone never move it. At the end everything was pushed once.
func ZZFollowerCursor(rf, n, k int) {
	T := int64(3)
	w := zzNewWal("l")
	for i := 0; i < n; i++ {
		_ = w.AppendAsync(zzPutEntry(i, 2, byte(i)))
	}
	w.lastSynced = w.lastAppended
	head := int64(n - 1)
	commit0 := int64(vChoice("commit", n+1)) - 1
	q := NewQuorumAckTracker(uint32(rf), head, commit0)
	a0 := int64(vChoice("followerAck", n)) // 0..n-1: the follower holds a prefix (no snapshot needed)
	final := int64(n + k - 1)
	st := &zzCurStream{w: w, q: q, next: a0 + 1, acks: make(chan int64, n+k+1), allSent: make(chan bool, 1), final: final}
	cur, err := NewFollowerCursor("f1", T, "zz", 1, &zzCurRpc{st}, q, w, nil, a0)
	vAssert("cursor-created", err == nil)
	for i := 0; i < k; i++ {
		vYield("leader-appends")
		vSettle(10) // natively: let the cursor drain and the acknowledgement of the previous entry arrive
		o := q.NextOffset()
		_ = w.AppendAsync(zzPutEntry(int(o), T, byte(o)))
		w.lastSynced = w.lastAppended
		q.AdvanceHeadOffset(o)
	}
	if a0 < final {
		<-st.allSent
	}
	vSettle(20)
	vAssert("everything-pushed-exactly-once", int64(st.sent) == final-a0)
	vAssert("last-pushed-is-the-head", cur.LastPushed() == final)
	if rf >= 4 {
		vAssert("one-follower-alone-does-not-commit", q.CommitOffset() == commit0)
	}
	_ = cur.Close()
	vReach("end")
}

// ---- a follower connection that drops: the first stream swallows `lose` appends (they never reach the follower,
// nothing is acknowledged) and then breaks; the next stream is healthy. The follower holds exactly what it has
// acknowledged, so on every NEW stream the first entry must be the one right after its acknowledged offset.

type zzFlakyRpc struct {
	w       *zzWal
	q       QuorumAckTracker
	lose    int
	acked   int64 // what the follower durably holds = what it acknowledged
	streams []*zzFlakyStream
	caught  chan bool
	final   int64
}

type zzFlakyStream struct {
	grpc.ClientStream
	ctx    context.Context
	r      *zzFlakyRpc
	lossy  bool
	seen   int
	next   int64
	acks   chan int64
	broken chan struct{}
}

func (s *zzFlakyStream) CloseSend() error { return nil }
func (s *zzFlakyStream) Send(a *proto.Append) error {
	vAssert("entries-on-a-stream-in-order-without-gaps-from-the-acknowledged-offset", a.Entry.Offset == s.next)
	s.next = a.Entry.Offset + 1
	if s.lossy {
		// lost in flight: the follower never sees it
		s.seen++
		if s.seen == s.r.lose {
			close(s.broken)
		}
		return nil
	}
	vAssert("sent-entry-is-the-leaders-entry", a.Entry.Offset >= s.r.w.first && a.Entry.Offset <= s.r.w.lastAppended && s.r.w.at(a.Entry.Offset).term == a.Entry.Term)
	s.r.acked = a.Entry.Offset
	s.acks <- a.Entry.Offset
	if a.Entry.Offset == s.r.final {
		s.r.caught <- true
	}
	return nil
}
func (s *zzFlakyStream) Recv() (*proto.Ack, error) {
	select {
	case o := <-s.acks:
		return &proto.Ack{Offset: o}, nil
	case <-s.broken:
		return nil, status.Error(codes.Unavailable, "zz: connection lost")
	case <-s.ctx.Done():
		return nil, status.Error(codes.Canceled, "zz: stream closed")
	}
}

func (r *zzFlakyRpc) GetReplicateStream(ctx context.Context, _ string, _ string, _ int64, _ int64) (proto.OxiaLogReplication_ReplicateClient, error) {
	st := &zzFlakyStream{ctx: ctx, r: r, lossy: len(r.streams) == 0 && r.lose > 0, next: r.acked + 1, acks: make(chan int64, 8), broken: make(chan struct{})}
	r.streams = append(r.streams, st)
	return st, nil
}
func (r *zzFlakyRpc) SendSnapshot(context.Context, string, string, int64, int64) (proto.OxiaLogReplication_SendSnapshotClient, error) {
	return nil, errors.New("zz: no snapshot in this harness")
}

// ZZCursorReconnect (C03, C01): the REAL follower cursor across a connection loss within one term: the leader's
// log holds n entries, the follower has acknowledged a0 of them; the first stream loses `lose` appends in flight and
// breaks; the cursor re-attaches (backoff) and the leader appends one more entry. What the leader pushed but the
// follower never acknowledged must be pushed AGAIN: every new stream starts right after the follower's acknowledged
// offset, so that the offsets the quorum tracker counts for this follower are offsets it really stores.
func ZZCursorReconnect(n, lose int) {
	T := int64(3)
	w := zzNewWal("l")
	for i := 0; i < n; i++ {
		_ = w.AppendAsync(zzPutEntry(i, 2, byte(i)))
	}
	w.lastSynced = w.lastAppended
	head := int64(n - 1)
	q := NewQuorumAckTracker(3, head, -1)
	a0 := int64(vChoice("followerAck", n)) - 1 // -1 is not used here: the follower holds 0..a0, a0 >= 0
	vAssume(a0 >= 0)
	vAssume(int64(lose) <= head-a0) // there are that many entries to lose
	rpc := &zzFlakyRpc{w: w, q: q, lose: lose, acked: a0, caught: make(chan bool, 1), final: int64(n)}
	cur, err := NewFollowerCursor("f1", T, "zz", 1, rpc, q, w, nil, a0)
	vAssert("cursor-created", err == nil)
	// the leader appends one more entry while all this happens
	_ = w.AppendAsync(zzPutEntry(n, T, byte(n)))
	w.lastSynced = w.lastAppended
	q.AdvanceHeadOffset(int64(n))
	<-rpc.caught
	vSettle(20)
	vAssert("follower-holds-everything-up-to-the-head", rpc.acked == int64(n))
	if lose > 0 {
		vAssert("cursor-re-attached", len(rpc.streams) >= 2)
	}
	vAssert("quorum-commit-is-backed-by-the-follower", q.CommitOffset() <= rpc.acked)
	_ = cur.Close()
	vReach("end")
}
