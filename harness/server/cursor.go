package server

import (
	"context"
	"errors"

	"google.golang.org/grpc"
	"google.golang.org/grpc/codes"
	"google.golang.org/grpc/status"

	"github.com/oxia-db/oxia/proto"
)

// ---- model of the leader -> follower Replicate stream (client side). The follower behind it stores and
// acknowledges every entry, in order. The oracle lives in Send: a message is checked the moment the real
// cursor emits it.

type zzCurStream struct {
	grpc.ClientStream
	ctx     context.Context
	w       *zzWal
	q       QuorumAckTracker
	term    int64
	next    int64 // offset the follower expects
	acks    chan int64
	sent    int
	allSent chan bool
	final   int64
}

func (s *zzCurStream) CloseSend() error { return nil }
func (s *zzCurStream) Send(a *proto.Append) error {
	vAssert("append-carries-the-cursor-term", a.Term == s.term)
	vAssert("entries-sent-in-order-without-gaps", a.Entry.Offset == s.next)
	if a.Entry.Offset >= s.w.first && a.Entry.Offset <= s.w.lastAppended {
		vAssert("sent-entry-is-the-leaders-entry", s.w.at(a.Entry.Offset).term == a.Entry.Term)
	} else {
		vAssert("sent-entry-exists-in-the-leaders-log", false)
	}
	// what the leader tells a follower to apply must be stored by a quorum
	vAssert("advertised-commit-offset-is-quorum-committed", a.CommitOffset <= s.q.CommitOffset())
	vAssert("advertised-commit-offset-not-beyond-head", a.CommitOffset <= s.q.HeadOffset())
	s.next = a.Entry.Offset + 1
	s.sent++
	s.acks <- a.Entry.Offset
	if a.Entry.Offset == s.final {
		s.allSent <- true
	}
	return nil
}
func (s *zzCurStream) Recv() (*proto.Ack, error) {
	select {
	case o := <-s.acks:
		return &proto.Ack{Offset: o}, nil
	case <-s.ctx.Done():
		return nil, status.Error(codes.Canceled, "zz: stream closed")
	}
}

type zzCurRpc struct{ st *zzCurStream }

func (r *zzCurRpc) GetReplicateStream(ctx context.Context, _ string, _ string, _ int64, term int64) (proto.OxiaLogReplication_ReplicateClient, error) {
	r.st.ctx = ctx
	r.st.term = term
	return r.st, nil
}
func (r *zzCurRpc) SendSnapshot(context.Context, string, string, int64, int64) (proto.OxiaLogReplication_SendSnapshotClient, error) {
	return nil, errors.New("zz: no snapshot in this harness")
}

// ZZFollowerCursor (C01 / C08): the REAL follower cursor (run / streamEntries / streamEntriesLoop /
// receiveAcks goroutines) of a leader with replication factor rf over a model WAL holding n entries, a real
// quorum tracker whose commit offset is symbolic, and a follower that has acknowledged a symbolic prefix.
// While the cursor streams, the leader appends k more entries. The follower acknowledges everything it
// gets; the other followers stay silent. Every Append the cursor emits is for the next offset, carries the
// leader's entry and the cursor's term, and advertises a commit offset that a quorum has really stored —
// with rf >= 4 one follower's acknowledgements alone never move it. At the end everything was pushed once.
func ZZFollowerCursor(rf, n, k int) {
	T := int64(3)
	w := zzNewWal("l")
	for i := 0; i < n; i++ {
		_ = w.AppendAsync(zzPutEntry(i, 2, byte(i)))
	}
	w.lastSynced = w.lastAppended
	head := int64(n - 1)
	commit0 := int64(vChoice("commit", n+1)) - 1
	q := NewQuorumAckTracker(uint32(rf), head, commit0)
	a0 := int64(vChoice("followerAck", n)) // 0..n-1: the follower holds a prefix (no snapshot needed)
	final := int64(n + k - 1)
	st := &zzCurStream{w: w, q: q, next: a0 + 1, acks: make(chan int64, n+k+1), allSent: make(chan bool, 1), final: final}
	cur, err := NewFollowerCursor("f1", T, "zz", 1, &zzCurRpc{st}, q, w, nil, a0)
	vAssert("cursor-created", err == nil)
	for i := 0; i < k; i++ {
		vYield("leader-appends")
		vSettle(10) // natively: let the cursor drain and the acknowledgement of the previous entry arrive
		o := q.NextOffset()
		_ = w.AppendAsync(zzPutEntry(int(o), T, byte(o)))
		w.lastSynced = w.lastAppended
		q.AdvanceHeadOffset(o)
	}
	if a0 < final {
		<-st.allSent
	}
	vSettle(20)
	vAssert("everything-pushed-exactly-once", int64(st.sent) == final-a0)
	vAssert("last-pushed-is-the-head", cur.LastPushed() == final)
	if rf >= 4 {
		vAssert("one-follower-alone-does-not-commit", q.CommitOffset() == commit0)
	}
	_ = cur.Close()
	vReach("end")
}
