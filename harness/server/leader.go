package server

import (
	"context"
	"errors"

	"github.com/oxia-db/oxia/proto"
	"github.com/oxia-db/oxia/server/kv"
)

// ---- model of the leader's replication RPC provider: Truncate goes to a REAL follower controller,
// streams are not opened (the follower-cursor goroutine is not started in these harnesses; the harness
// plays its part by calling the real cursorAcker).

type zzRpc struct {
	followers map[string]*followerController
	truncates []*proto.TruncateRequest
	// state of the follower log at the moment of the Truncate call (for the oracle)
	truncTargetTermOnFollower []int64
}

func (r *zzRpc) Close() error { return nil }
func (r *zzRpc) GetReplicateStream(context.Context, string, string, int64, int64) (proto.OxiaLogReplication_ReplicateClient, error) {
	return nil, errors.New("zz: no stream")
}
func (r *zzRpc) SendSnapshot(context.Context, string, string, int64, int64) (proto.OxiaLogReplication_SendSnapshotClient, error) {
	return nil, errors.New("zz: no stream")
}
func (r *zzRpc) Truncate(follower string, req *proto.TruncateRequest) (*proto.TruncateResponse, error) {
	r.truncates = append(r.truncates, req)
	fc := r.followers[follower]
	w := fc.wal.(*zzWal)
	t := int64(-1)
	if req.HeadEntryId.Offset >= w.first && req.HeadEntryId.Offset <= w.lastAppended && w.first >= 0 {
		t = w.at(req.HeadEntryId.Offset).term
	}
	r.truncTargetTermOnFollower = append(r.truncTargetTermOnFollower, t)
	return fc.Truncate(req)
}

func zzPutEntry(i int, term int64, val byte) *proto.LogEntry {
	lev := &proto.LogEntryValue{Value: &proto.LogEntryValue_Requests{Requests: &proto.WriteRequests{Writes: []*proto.WriteRequest{
		{Puts: []*proto.PutRequest{{Key: "k", Value: []byte{val}}}}}}}}
	b, _ := lev.MarshalVT()
	return &proto.LogEntry{Term: term, Offset: int64(i), Value: b, Timestamp: uint64(100 + i)}
}

// zzLeaderOver builds a real leader controller (real constructor, real DB, real session manager) over a
// model WAL / KV with the given persisted term.
func zzLeaderOver(w *zzWal, m *zzKV, term int64, rpc ReplicationRpcProvider) *leaderController {
	d, err := kv.NewDB("zz", 1, &zzFactory{kv: m}, 0, nil)
	vAssert("db-open", err == nil)
	if term >= 0 {
		vAssert("term-store", d.UpdateTerm(term, kv.TermOptions{}) == nil)
	}
	lc, err := NewLeaderController(zzConfig(), "zz", 1, rpc, &zzWalFactory{w}, &zzFactory{kv: m})
	vAssert("leader-open", err == nil)
	return lc.(*leaderController)
}

// ZZTruncate (C03 / C01): attach path. Leader log L (nl entries) and follower log F (nf entries) share
// a common prefix of p entries and then differ (Log Matching: at and after the first difference the
// terms differ); the leader's head is at least the follower's reported head (it won the election).
// The real leaderController.addFollower -> truncateFollowerIfNeeded -> (RPC) real
// followerController.Truncate run; afterwards the follower's log must be a prefix of the leader's
// log ending at the offset the cursor starts from.
func ZZTruncate(nl, nf, p int) {
	T := int64(5)
	lterm := make([]int64, nl)
	fterm := make([]int64, nf)
	prev := int64(1)
	for i := 0; i < nl; i++ {
		lterm[i] = prev + int64(vChoice("lstep", 3))
		vAssume(lterm[i] < T)
		prev = lterm[i]
	}
	prev = 1
	for i := 0; i < nf; i++ {
		if i < p {
			fterm[i] = lterm[i]
		} else {
			fterm[i] = prev + int64(vChoice("fstep", 3))
			vAssume(fterm[i] < T)
			// Log Matching: a term has one leader with one log, so the two divergent suffixes
			// cannot contain entries of the same term
			for j := p; j < nl; j++ {
				vAssume(fterm[i] != lterm[j])
			}
		}
		vAssume(fterm[i] >= prev)
		prev = fterm[i]
	}
	// the leader was elected with the best head among the responders
	if nf > 0 {
		vAssume(lterm[nl-1] > fterm[nf-1] || (lterm[nl-1] == fterm[nf-1] && nl >= nf))
	}
	lw, fw := zzNewWal("l"), zzNewWal("f")
	for i := 0; i < nl; i++ {
		_ = lw.AppendAsync(zzPutEntry(i, lterm[i], 1))
	}
	for i := 0; i < nf; i++ {
		v := byte(1)
		if i >= p {
			v = 2
		}
		_ = fw.AppendAsync(zzPutEntry(i, fterm[i], v))
	}
	lw.lastSynced, fw.lastSynced = lw.lastAppended, fw.lastAppended
	fc := zzFollowerOver(fw, &zzKV{}, T)
	rpc := &zzRpc{followers: map[string]*followerController{"f": fc}}
	lc := zzLeaderOver(lw, &zzKV{}, T, rpc)
	// what BecomeLeader sets up before attaching followers
	lc.leaderElectionHeadEntryId = &proto.EntryId{Term: lterm[nl-1], Offset: int64(nl - 1)}
	lc.quorumAckTracker = NewQuorumAckTracker(3, int64(nl-1), -1)
	lc.followers = map[string]FollowerCursor{}
	fhead := &proto.EntryId{Term: -1, Offset: -1}
	if nf > 0 {
		fhead = &proto.EntryId{Term: fterm[nf-1], Offset: int64(nf - 1)}
	}
	err := lc.addFollower("f", fhead)
	if err != nil {
		vReach("refused")
		vReach("end")
		return
	}
	cur := lc.followers["f"].(*followerCursor)
	ack := cur.ackOffset.Load()
	vObserve("ack-offset", ack)
	vObserve("truncates", int64(len(rpc.truncates)))
	vAssert("cursor-starts-at-follower-head", ack == fw.lastAppended)
	vAssert("follower-head-tracks-its-wal", fc.lastAppendedOffset == fw.lastAppended)
	// attaching pre-acknowledges commit+1..ackOffset on behalf of this follower: with RF 3 that is a
	// quorum, so the commit offset may not pass what the follower really holds
	vAssert("commit-offset-not-beyond-what-the-follower-holds", lc.quorumAckTracker.CommitOffset() <= fw.lastAppended)
	known := false
	if len(rpc.truncates) == 1 {
		known = vKnown("KF-C03-truncate-by-offset-only", rpc.truncTargetTermOnFollower[0] != rpc.truncates[0].HeadEntryId.Term)
	}
	for o := int64(0); o <= fw.lastAppended; o++ {
		same := o < int64(nl) && fw.at(o).term == lterm[o] && o < int64(p)
		if known {
			vAssert("follower-log-is-prefix-of-leader-log", same)
		} else {
			vAssert("follower-log-is-prefix-of-leader-log", same)
		}
	}
	vAssert("nothing-common-was-dropped-beyond-need", fw.lastAppended <= int64(nl-1))
	vReach("end")
}
