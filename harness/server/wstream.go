package server

import (
	"context"
	"io"

	"google.golang.org/grpc"

	"github.com/oxia-db/oxia/proto"
)

type zzWriteSrvStream struct {
	grpc.ServerStream
	ctx  context.Context
	reqs []*proto.WriteRequest
	pos  int
	sent []*proto.WriteResponse
	out  chan int
}

func (s *zzWriteSrvStream) Context() context.Context { return s.ctx }
func (s *zzWriteSrvStream) Recv() (*proto.WriteRequest, error) {
	if s.pos >= len(s.reqs) {
		return nil, io.EOF
	}
	r := s.reqs[s.pos]
	s.pos++
	return r, nil
}
func (s *zzWriteSrvStream) Send(r *proto.WriteResponse) error {
	s.sent = append(s.sent, r)
	s.out <- len(s.sent)
	return nil
}

// ZZWriteStreamServer (C08 / C20, server side of the write stream): the real procesWriteStream feeding the real
// leaderController.Write (RF 1; the model WAL's append-and-sync is a schedule point) with k requests of one
// stream. The client matches answers to requests by position, so: exactly one answer per request, in request
// order, each carrying the result of ITS request (a put of key i gets a version for key i; a conditional put
// that must fail gets its failure), and the log holds the requests in that order.
func ZZWriteStreamServer(k int) {
	w, m := zzLeaderState(1, 0)
	lc := zzLeaderOver(w, m, 3, &zzRpc{})
	_, err := lc.BecomeLeader(context.Background(), &proto.BecomeLeaderRequest{Term: 3, ReplicationFactor: 1})
	vAssert("became-leader", err == nil)
	st := &zzWriteSrvStream{ctx: context.Background(), out: make(chan int, 8)}
	keys := []string{"s0", "s1", "s2", "s3"}
	bad := int64(12345)
	for i := 0; i < k; i++ {
		req := &proto.WriteRequest{Puts: []*proto.PutRequest{{Key: keys[i], Value: []byte{byte(i)}}}}
		if i%2 == 1 {
			// every second request is a conditional put that cannot succeed: its answer is distinguishable
			req.Puts[0].ExpectedVersionId = &bad
		}
		st.reqs = append(st.reqs, req)
	}
	finished := make(chan error, 1)
	vGo("stream", func() { procesWriteStream(st.ctx, finished, st, lc) })
	for i := 0; i < k; i++ {
		<-st.out
	}
	ferr := <-finished
	vAssert("stream-ends-cleanly", ferr == nil)
	vAssert("one-answer-per-request", len(st.sent) == k)
	prev := int64(-1)
	for i := 0; i < k && i < len(st.sent); i++ {
		r := st.sent[i]
		if i%2 == 1 {
			vAssert("answer-i-is-the-result-of-request-i", len(r.Puts) == 1 && r.Puts[0].Status == proto.Status_UNEXPECTED_VERSION_ID)
		} else {
			vAssert("answer-i-is-the-result-of-request-i", len(r.Puts) == 1 && r.Puts[0].Status == proto.Status_OK && r.Puts[0].Version.VersionId > prev)
			if len(r.Puts) == 1 && r.Puts[0].Status == proto.Status_OK {
				prev = r.Puts[0].Version.VersionId
				g, _ := lc.db.Get(&proto.GetRequest{Key: keys[i], IncludeValue: true})
				vAssert("the-acknowledged-version-is-the-stored-one", g.Status == proto.Status_OK && g.Version.VersionId == r.Puts[0].Version.VersionId && g.Value[0] == byte(i))
			}
		}
	}
	vAssert("log-holds-the-requests-in-order", w.lastAppended == int64(k))
	vReach("end")
}
