package server

import (
	"context"
	"time"

	"github.com/oxia-db/oxia/proto"
	"github.com/oxia-db/oxia/server/kv"
)

type zzSCb[T any] struct {
	next *int
	done *int
	err  *error
}

func (c zzSCb[T]) OnNext(T) error { *c.next = *c.next + 1; return nil }
func (c zzSCb[T]) OnComplete(err error) {
	*c.done = *c.done + 1
	*c.err = err
}

type zzWCb struct {
	ok  *int
	bad *int
	res **proto.WriteResponse
}

func (c zzWCb) OnComplete(r *proto.WriteResponse) { *c.ok = *c.ok + 1; *c.res = r }
func (c zzWCb) OnCompleteError(error)             { *c.bad = *c.bad + 1 }

// zzDoneCtx: a context whose Done channel is already closed (Err non-nil): in a select next to other
// ready cases the engine explores both "the caller gave up" and "the event arrived".
type zzDoneCtx struct{ ch chan struct{} }

func zzCancelled() zzDoneCtx {
	ch := make(chan struct{})
	close(ch)
	return zzDoneCtx{ch}
}
func (zzDoneCtx) Deadline() (time.Time, bool) { return time.Time{}, false }
func (c zzDoneCtx) Done() <-chan struct{}     { return c.ch }
func (zzDoneCtx) Err() error                  { return context.Canceled }
func (zzDoneCtx) Value(any) any               { return nil }

// zzLeaderState: WAL with n synced entries of term 2 (each a put on key "k"), DB with entries 0..c applied.
func zzLeaderState(n, c int) (*zzWal, *zzKV) {
	w := zzNewWal("l")
	m := &zzKV{}
	d, _ := kv.NewDB("zz", 1, &zzFactory{kv: m}, 0, nil)
	for i := 0; i < n; i++ {
		e := zzPutEntry(i, 2, byte(i))
		_ = w.AppendAsync(e)
		if i <= c {
			_, _ = d.ProcessWrite(&proto.WriteRequest{Puts: []*proto.PutRequest{{Key: "k", Value: []byte{byte(i)}}}}, int64(i), e.Timestamp, WrapperUpdateOperationCallback)
		}
	}
	w.lastSynced = w.lastAppended
	return w, m
}

// ZZBecomeLeader (C01 / C02): BecomeLeader on a fenced node whose log has n entries of which 0..c are
// applied, with RF-1 followers whose heads are symbolic. It may only succeed — and the node may only
// start serving — when a quorum already stores the whole log up to the election head; then every
// entry above the DB's commit offset has been applied exactly once, in order. A caller that gives up
// leaves the node not serving.
func ZZBecomeLeader(n, c, rf int) {
	w, m := zzLeaderState(n, c)
	T := int64(3)
	rpc := &zzRpc{followers: map[string]*followerController{}}
	lc := zzLeaderOver(w, m, T, rpc)
	vAssert("restarts-fenced", lc.status == proto.ServingStatus_FENCED)
	req := &proto.BecomeLeaderRequest{Namespace: "zz", Shard: 1, Term: T, ReplicationFactor: uint32(rf), FollowerMaps: map[string]*proto.EntryId{}}
	best := int64(-2)
	names := []string{"f1", "f2"}
	for i := 0; i < rf-1; i++ {
		h := int64(vChoice("followerHead", n+1)) - 1
		if h > best {
			best = h
		}
		if h >= 0 {
			req.FollowerMaps[names[i]] = &proto.EntryId{Term: 2, Offset: h}
		} else {
			req.FollowerMaps[names[i]] = &proto.EntryId{Term: -1, Offset: -1}
		}
	}
	commitsBefore := m.commits
	head := int64(n - 1)
	quorumHasLog := rf == 1 || best >= head || int64(c) >= head // offsets <= the DB commit offset were quorum-stored in an earlier term
	var ctx context.Context = context.Background()
	if !quorumHasLog {
		ctx = zzCancelled() // nobody will ever acknowledge the tail: the caller eventually gives up
	}
	_, err := lc.BecomeLeader(ctx, req)
	if err == nil {
		vReach("leader")
		vAssert("serving-only-when-quorum-stores-the-log", quorumHasLog)
		vAssert("status-leader", lc.status == proto.ServingStatus_LEADER)
		vAssert("commit-reached-election-head", rf == 1 || lc.quorumAckTracker.CommitOffset() >= head)
		co, _ := lc.db.ReadCommitOffset()
		vAssert("all-entries-applied", co == head)
		vAssert("each-pending-entry-applied-once", m.commits == commitsBefore+(n-1-c))
		if n > 0 {
			gr, gerr := lc.db.Get(&proto.GetRequest{Key: "k", IncludeValue: true})
			vAssert("state-is-fold-of-log", gerr == nil && gr.Version.VersionId == head && gr.Version.ModificationsCount == head && gr.Value[0] == byte(head))
		}
	} else {
		vReach("refused")
		vAssert("not-serving-after-failed-election", lc.status != proto.ServingStatus_LEADER)
		// an election that does not complete must not apply the uncommitted tail: another leader may still
		// truncate it, and a DB commit offset ahead of the log would make this node skip the replacements
		co, _ := lc.db.ReadCommitOffset()
		vAssert("failed-election-applies-nothing", co == int64(c) && m.commits == commitsBefore)
		// C04: the failed election has left follower cursors and a quorum tracker of term T behind. When the node is
		// fenced for the next term they must be torn down — nothing may be pushed or acknowledged on behalf of
		// term T after the node has answered NewTerm(T+1).
		cursors := []FollowerCursor{}
		for _, fcur := range lc.followers {
			cursors = append(cursors, fcur)
		}
		qat := lc.quorumAckTracker
		resp, nerr := lc.NewTerm(&proto.NewTermRequest{Namespace: "zz", Shard: 1, Term: T + 1})
		vAssert("fenced-for-the-next-term", nerr == nil && lc.term == T+1 && lc.status == proto.ServingStatus_FENCED)
		if nerr == nil {
			vAssert("reported-head-is-end-of-log", resp.HeadEntryId.Offset == w.lastAppended)
		}
		for _, fcur := range cursors {
			vAssert("old-term-cursor-closed-by-the-next-new-term", fcur.(*followerCursor).closed.Load())
		}
		if qat != nil {
			vAssert("old-term-tracker-closed-by-the-next-new-term", qat.(*quorumAckTracker).closed)
		}
		vAssert("no-replication-state-kept", len(lc.followers) == 0 && lc.quorumAckTracker == nil)
	}
	vReach("end")
}

// ZZLeaderNewTerm (C04, leader side): a serving leader (RF 1, one write done) receives NewTerm(T2) for
// an arbitrary T2, then further requests of the old term.
func ZZLeaderNewTerm(n int) {
	w, m := zzLeaderState(n, n-1)
	T := int64(3)
	lc := zzLeaderOver(w, m, T, &zzRpc{})
	_, err := lc.BecomeLeader(context.Background(), &proto.BecomeLeaderRequest{Term: T, ReplicationFactor: 1})
	vAssert("became-leader", err == nil && lc.status == proto.ServingStatus_LEADER)
	var ok, bad int
	var res *proto.WriteResponse
	lc.Write(context.Background(), &proto.WriteRequest{Puts: []*proto.PutRequest{{Key: "k", Value: []byte{9}}}}, zzWCb{&ok, &bad, &res})
	vAssert("write-served", ok == 1 && bad == 0 && res.Puts[0].Status == proto.Status_OK)
	vAssert("write-logged", w.lastAppended == int64(n))

	T2 := vInt64("newTerm")
	vAssume(T2 >= 0)
	vAssume(T2 < 100)
	flushes := m.flushes
	resp, err := lc.NewTerm(&proto.NewTermRequest{Term: T2})
	if T2 < T {
		vAssert("lower-term-rejected", err != nil && lc.term == T && lc.status == proto.ServingStatus_LEADER)
		vReach("rejected")
	} else if T2 == T {
		vAssert("same-term-while-leading-rejected", err != nil && lc.status == proto.ServingStatus_LEADER)
		vReach("rejected-same")
	} else {
		vAssert("accepted", err == nil)
		vAssert("fenced", lc.status == proto.ServingStatus_FENCED)
		vAssert("term-adopted", lc.term == T2)
		pt, _, perr := lc.db.ReadTerm()
		vAssert("term-persisted-and-flushed", perr == nil && pt == T2 && m.flushes > flushes)
		vAssert("reported-head-is-end-of-log", resp.HeadEntryId.Offset == w.lastAppended && resp.HeadEntryId.Term == T)
		vAssert("tracker-closed", lc.quorumAckTracker == nil)
		// requests of the old term make no progress
		appends := w.appends
		ok, bad = 0, 0
		lc.Write(context.Background(), &proto.WriteRequest{Puts: []*proto.PutRequest{{Key: "k", Value: []byte{7}}}}, zzWCb{&ok, &bad, &res})
		vAssert("write-rejected-when-fenced", ok == 0 && bad == 1)
		vAssert("log-does-not-grow", w.appends == appends)
		_, berr := lc.BecomeLeader(context.Background(), &proto.BecomeLeaderRequest{Term: T, ReplicationFactor: 1})
		vAssert("old-term-become-leader-rejected", berr != nil && lc.status == proto.ServingStatus_FENCED)
		_, aerr := lc.AddFollower(&proto.AddFollowerRequest{Term: T, FollowerName: "f1", FollowerHeadEntryId: &proto.EntryId{Term: -1, Offset: -1}})
		vAssert("old-term-add-follower-rejected", aerr != nil)
		vReach("fenced")
	}
	vReach("end")
}

// ZZServingGate (C02): anything but a LEADER rejects reads, lists, scans, writes, notification and
// sequence subscriptions before touching the DB or the WAL.
func ZZServingGate(st int) {
	w, m := zzLeaderState(2, 1)
	lc := zzLeaderOver(w, m, 3, &zzRpc{})
	lc.status = proto.ServingStatus(st)
	vAssume(lc.status != proto.ServingStatus_LEADER)
	lc.termOptions.NotificationsEnabled = true
	commits, appends := m.commits, w.appends
	var next, done int
	var err error
	lc.Read(context.Background(), &proto.ReadRequest{Gets: []*proto.GetRequest{{Key: "k"}}}, zzSCb[*proto.GetResponse]{&next, &done, &err})
	vAssert("read-rejected", done == 1 && next == 0 && err != nil)
	next, done, err = 0, 0, nil
	lc.List(context.Background(), &proto.ListRequest{StartInclusive: "a", EndExclusive: "z"}, zzSCb[string]{&next, &done, &err})
	vAssert("list-rejected", done == 1 && next == 0 && err != nil)
	next, done, err = 0, 0, nil
	lc.RangeScan(context.Background(), &proto.RangeScanRequest{StartInclusive: "a", EndExclusive: "z"}, zzSCb[*proto.GetResponse]{&next, &done, &err})
	vAssert("scan-rejected", done == 1 && next == 0 && err != nil)
	next, done, err = 0, 0, nil
	lc.GetNotifications(context.Background(), &proto.NotificationsRequest{}, zzSCb[*proto.NotificationBatch]{&next, &done, &err})
	vAssert("notifications-rejected", done == 1 && next == 0 && err != nil)
	_, serr := lc.GetSequenceUpdates(context.Background(), &proto.GetSequenceUpdatesRequest{Key: "p"})
	vAssert("sequence-updates-rejected", serr != nil)
	var ok, bad int
	var res *proto.WriteResponse
	lc.Write(context.Background(), &proto.WriteRequest{Puts: []*proto.PutRequest{{Key: "k", Value: []byte{7}}}}, zzWCb{&ok, &bad, &res})
	vAssert("write-rejected", ok == 0 && bad == 1)
	vAssert("db-untouched", m.commits == commits)
	vAssert("wal-untouched", w.appends == appends)
	vReach("end")
}

// ZZLeaderPipeline (C08): k concurrent client writes on a serving leader (RF 1, model WAL whose
// AppendAndSync is a schedule point, real quorum tracker, real DB). With a healthy quorum every write
// must succeed, get a distinct offset, reach the WAL in offset order and be applied in offset order.
func ZZLeaderPipeline(k int) {
	w, m := zzLeaderState(1, 0)
	lc := zzLeaderOver(w, m, 3, &zzRpc{})
	_, err := lc.BecomeLeader(context.Background(), &proto.BecomeLeaderRequest{Term: 3, ReplicationFactor: 1})
	vAssert("became-leader", err == nil)
	oks := make([]int, k)
	bads := make([]int, k)
	ress := make([]*proto.WriteResponse, k)
	done := make(chan int, k)
	for i := 0; i < k; i++ {
		i := i
		vGo("writer", func() {
			lc.Write(context.Background(), &proto.WriteRequest{Puts: []*proto.PutRequest{{Key: "k", Value: []byte{byte(10 + i)}}}}, zzWCb{&oks[i], &bads[i], &ress[i]})
			done <- i
		})
	}
	for i := 0; i < k; i++ {
		<-done
	}
	failed := 0
	for i := 0; i < k; i++ {
		vAssert("callback-exactly-once", oks[i]+bads[i] == 1)
		failed += bads[i]
	}
	if vKnown("KF-C08-concurrent-writers-reach-wal-out-of-order", failed > 0) {
		vAssert("no-spurious-failure-with-healthy-quorum", failed == 0)
	} else {
		vAssert("no-spurious-failure-with-healthy-quorum", failed == 0)
		vAssert("wal-contiguous", w.lastAppended == int64(k))
		co, _ := lc.db.ReadCommitOffset()
		vAssert("all-applied", co == int64(k))
		gr, _ := lc.db.Get(&proto.GetRequest{Key: "k", IncludeValue: true})
		vAssert("applied-in-offset-order-once-each", gr.Version.ModificationsCount == int64(k))
		for i := 0; i < k; i++ {
			vAssert("own-response", ress[i] != nil && ress[i].Puts[0].Status == proto.Status_OK)
		}
	}
	vReach("end")
}

// ZZNodeTerm (C05, server side): a node (kind 0 follower controller, 1 leader controller) adopts an
// arbitrary term T1, crashes (losing every KV batch after the last flush) and restarts through the real
// constructor: the term is read back, the node is FENCED, lower terms are refused, and on a leader
// controller BecomeLeader succeeds only from FENCED in exactly that term, once.
func ZZNodeTerm(kind int) {
	w, m := zzLeaderState(1, 0)
	T1 := vInt64("t1")
	vAssume(T1 >= 0)
	vAssume(T1 < 1000)
	T2 := vInt64("t2")
	vAssume(T2 >= 0)
	vAssume(T2 < 1000)
	if kind == 0 {
		fc := zzFollowerOver(w, m, -1)
		vAssert("fresh-node-not-member", fc.status == proto.ServingStatus_NOT_MEMBER && fc.term == -1)
		notif := vBool("notificationsEnabled")
		_, err := fc.NewTerm(&proto.NewTermRequest{Term: T1, Options: &proto.NewTermOptions{EnableNotifications: notif}})
		vAssert("first-term-accepted", err == nil && fc.term == T1)
		m.zzCrash()
		fc2 := zzFollowerOver(w, m, -1)
		vAssert("term-survives-crash", fc2.term == T1)
		// C06: what a replica writes for a committed entry (notification batches) depends on the term's options:
		// they must read back exactly as stored, or a restarted replica diverges from one that did not restart
		vAssert("term-options-survive-a-restart", fc2.termOptions.NotificationsEnabled == notif)
		vAssert("restarts-fenced", fc2.status == proto.ServingStatus_FENCED)
		_, err = fc2.NewTerm(&proto.NewTermRequest{Term: T2})
		vAssert("term-never-decreases", (err == nil) == (T2 >= T1))
		vAssert("term-is-max", fc2.term >= T1 && (err != nil || fc2.term == T2))
	} else {
		lc := zzLeaderOver(w, m, -1, &zzRpc{})
		_, err := lc.NewTerm(&proto.NewTermRequest{Term: T1})
		vAssert("first-term-accepted", err == nil && lc.term == T1)
		m.zzCrash()
		lc2 := zzLeaderOver(w, m, -1, &zzRpc{})
		vAssert("term-survives-crash", lc2.term == T1)
		vAssert("restarts-fenced", lc2.status == proto.ServingStatus_FENCED)
		_, err = lc2.BecomeLeader(context.Background(), &proto.BecomeLeaderRequest{Term: T2, ReplicationFactor: 1})
		vAssert("become-leader-only-in-own-term", (err == nil) == (T2 == T1))
		if err == nil {
			vAssert("leader-in-that-term", lc2.status == proto.ServingStatus_LEADER && lc2.term == T1)
			_, err2 := lc2.BecomeLeader(context.Background(), &proto.BecomeLeaderRequest{Term: T1, ReplicationFactor: 1})
			vAssert("second-become-leader-refused", err2 != nil)
			_, err3 := lc2.NewTerm(&proto.NewTermRequest{Term: T1})
			vAssert("same-term-new-term-refused-while-leading", err3 != nil && lc2.status == proto.ServingStatus_LEADER)
		} else {
			vAssert("stays-fenced", lc2.status == proto.ServingStatus_FENCED && lc2.term == T1)
		}
	}
	vReach("end")
}

// ZZDirector (C04): the shards director holds a serving leader of term T; a follower-side request
// (Replicate / Truncate / SendSnapshot arrive through GetOrCreateFollower) names an arbitrary term.
// The leader is given up only for its own term (or the legacy "no term" value); any other term is
// refused and leaves the leader serving.
func ZZDirector() {
	w, m := zzLeaderState(1, 0)
	T := int64(3)
	d0, _ := kv.NewDB("zz", 1, &zzFactory{kv: m}, 0, nil)
	_ = d0.UpdateTerm(T, kv.TermOptions{})
	sd := NewShardsDirector(zzConfig(), &zzWalFactory{w}, &zzFactory{kv: m}, &zzRpc{}).(*shardsDirector)
	l, err := sd.GetOrCreateLeader("zz", 1)
	vAssert("leader-created", err == nil)
	lc := l.(*leaderController)
	_, err = lc.BecomeLeader(context.Background(), &proto.BecomeLeaderRequest{Term: T, ReplicationFactor: 1})
	vAssert("leading", err == nil && lc.status == proto.ServingStatus_LEADER)
	rt := vInt64("requestTerm")
	vAssume(rt >= -1)
	vAssume(rt < 100)
	f, err := sd.GetOrCreateFollower("zz", 1, rt)
	if rt == T || rt < 0 {
		vAssert("own-term-converts", err == nil && f != nil)
		_, still := sd.leaders[1]
		vAssert("leader-removed", !still)
		vAssert("old-leader-closed", lc.status == proto.ServingStatus_NOT_MEMBER)
		if err == nil {
			vAssert("follower-restarts-fenced-in-stored-term", f.(*followerController).status == proto.ServingStatus_FENCED && f.(*followerController).term == T)
		}
		vReach("converted")
	} else {
		vAssert("other-term-refused", err != nil)
		_, still := sd.leaders[1]
		vAssert("leader-kept", still && lc.status == proto.ServingStatus_LEADER)
		vReach("refused")
	}
	vReach("end")
}

// ZZUnknownOutcome (C02): a write whose outcome the client never learns takes effect at most once.
// On a leader with RF 3 and no follower acknowledgement a write is logged but cannot commit; NewTerm
// fails its callback (unknown outcome for the client). The same node then becomes leader in later terms
// (twice): the logged write is applied exactly once — never twice, never partially — and reads observe
// it only after it is part of the committed state.
func ZZUnknownOutcome() {
	w, m := zzLeaderState(1, 0)
	lc := zzLeaderOver(w, m, 3, &zzRpc{followers: map[string]*followerController{}})
	_, err := lc.BecomeLeader(context.Background(), &proto.BecomeLeaderRequest{Term: 3, ReplicationFactor: 3,
		FollowerMaps: map[string]*proto.EntryId{"f1": {Term: 2, Offset: 0}, "f2": {Term: 2, Offset: 0}}})
	vAssert("leading", err == nil && lc.status == proto.ServingStatus_LEADER)
	var ok, bad int
	var res *proto.WriteResponse
	lc.Write(context.Background(), &proto.WriteRequest{Puts: []*proto.PutRequest{{Key: "k", Value: []byte{42}}}}, zzWCb{&ok, &bad, &res})
	vAssert("logged-but-not-acknowledged", ok == 0 && bad == 0 && w.lastAppended == 1)
	gr, gerr := lc.db.Get(&proto.GetRequest{Key: "k", IncludeValue: true})
	vAssert("uncommitted-write-not-visible", gerr == nil && gr.Value[0] == 0 && gr.Version.ModificationsCount == 0)
	_, err = lc.NewTerm(&proto.NewTermRequest{Term: 4})
	vAssert("fenced", err == nil)
	vAssert("client-told-failure-exactly-once", ok == 0 && bad == 1)
	for term := int64(4); term <= 5; term++ {
		if term == 5 {
			_, err = lc.NewTerm(&proto.NewTermRequest{Term: 5})
			vAssert("fenced-again", err == nil)
		}
		_, err = lc.BecomeLeader(context.Background(), &proto.BecomeLeaderRequest{Term: term, ReplicationFactor: 1})
		vAssert("leader-again", err == nil)
		gr, gerr = lc.db.Get(&proto.GetRequest{Key: "k", IncludeValue: true})
		vAssert("applied-exactly-once", gerr == nil && gr.Value[0] == 42 && gr.Version.ModificationsCount == 1 && gr.Version.VersionId == 1)
		co, _ := lc.db.ReadCommitOffset()
		vAssert("commit-offset-is-the-write", co == 1)
	}
	vAssert("callback-not-fired-again", ok == 0 && bad == 1)
	vReach("end")
}
