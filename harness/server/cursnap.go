package server

import (
	"context"
	"io"

	"google.golang.org/grpc"
	"google.golang.org/grpc/codes"
	"google.golang.org/grpc/status"

	"github.com/oxia-db/oxia/proto"
	"github.com/oxia-db/oxia/server/kv"
)

// ---- leader cursor <-> follower controller, connected by in-memory pipes

type zzSnapPipe struct {
	grpc.ClientStream
	grpc.ServerStream
	ctx    context.Context
	chunks chan *proto.SnapshotChunk
	resp   chan *proto.SnapshotResponse
	term   int64
	sent   int
}

// client side (leader)
func (p *zzSnapPipe) Send(c *proto.SnapshotChunk) error {
	vAssert("chunk-carries-the-cursor-term", c.Term == p.term)
	p.sent++
	p.chunks <- c
	return nil
}
func (p *zzSnapPipe) CloseAndRecv() (*proto.SnapshotResponse, error) {
	close(p.chunks)
	r, ok := <-p.resp
	if !ok {
		return nil, status.Error(codes.Aborted, "zz: follower refused the snapshot")
	}
	return r, nil
}

// server side (follower)
func (p *zzSnapPipe) Context() context.Context { return p.ctx }
func (p *zzSnapPipe) Recv() (*proto.SnapshotChunk, error) {
	c, ok := <-p.chunks
	if !ok {
		return nil, io.EOF
	}
	return c, nil
}
func (p *zzSnapPipe) SendAndClose(r *proto.SnapshotResponse) error {
	p.resp <- r
	return nil
}
func (p *zzSnapPipe) SendMsg(any) error                { return nil }
func (p *zzSnapPipe) RecvMsg(any) error                { return nil }

type zzRepPipe struct {
	grpc.ClientStream
	ctx     context.Context
	fol     *followerController
	term    int64
	appends chan *proto.Append
	acks    chan *proto.Ack
	first   int64 // offset of the first Append the leader sent on this stream (-2: none yet)
	next    int64
}

func (p *zzRepPipe) CloseSend() error { return nil }
func (p *zzRepPipe) Send(a *proto.Append) error {
	vAssert("append-carries-the-cursor-term", a.Term == p.term)
	if p.first == -2 {
		p.first = a.Entry.Offset
	} else {
		vAssert("entries-sent-in-order-without-gaps", a.Entry.Offset == p.next)
	}
	p.next = a.Entry.Offset + 1
	p.appends <- a
	return nil
}
func (p *zzRepPipe) Recv() (*proto.Ack, error) {
	select {
	case a := <-p.acks:
		return a, nil
	case <-p.ctx.Done():
		return nil, status.Error(codes.Canceled, "zz: stream closed")
	}
}

type zzRepPipeServer struct {
	grpc.ServerStream
	p *zzRepPipe
}

func (s zzRepPipeServer) Context() context.Context { return s.p.ctx }
func (s zzRepPipeServer) Recv() (*proto.Append, error) {
	select {
	case a := <-s.p.appends:
		return a, nil
	case <-s.p.ctx.Done():
		return nil, io.EOF
	}
}
func (s zzRepPipeServer) Send(a *proto.Ack) error {
	s.p.acks <- a
	return nil
}

type zzPipeRpc struct {
	fol  *followerController
	snap *zzSnapPipe
	rep  *zzRepPipe
}

func (r *zzPipeRpc) SendSnapshot(ctx context.Context, _ string, _ string, _ int64, term int64) (proto.OxiaLogReplication_SendSnapshotClient, error) {
	p := &zzSnapPipe{ctx: ctx, chunks: make(chan *proto.SnapshotChunk, 16), resp: make(chan *proto.SnapshotResponse, 1), term: term}
	r.snap = p
	vGo("follower-receives-snapshot", func() {
		if err := r.fol.SendSnapshot(p); err != nil {
			close(p.resp)
		}
	})
	return p, nil
}
func (r *zzPipeRpc) GetReplicateStream(ctx context.Context, _ string, _ string, _ int64, term int64) (proto.OxiaLogReplication_ReplicateClient, error) {
	p := &zzRepPipe{ctx: ctx, fol: r.fol, term: term, appends: make(chan *proto.Append, 8), acks: make(chan *proto.Ack, 8), first: -2}
	r.rep = p
	vGo("follower-replicates", func() { _ = r.fol.Replicate(zzRepPipeServer{p: p}) })
	return p, nil
}

// ZZCursorSnapshot (C01, C03): a follower that is EMPTY (behind = 0: head -1, the leader has committed
// entries) or BEHIND THE LEADER'S TRIMMED LOG (behind = 1: it holds offsets 0..0 of an old term while the
// leader's WAL starts at offset c) is attached to a leader whose log holds n entries of which 0..c are committed
// and applied. The REAL follower cursor (shouldSendSnapshot, sendSnapshot, then streamEntries / receiveAcks)
// talks through in-memory pipes to the REAL follower controller (SendSnapshot / handleSnapshot /
// readSnapshotStream, then Replicate / append / sync loop) over its own model WAL and KV store.
// The follower ends up holding exactly what it claims: after the snapshot its DB is the leader's DB at commit
// offset c and it acknowledges exactly c — not more — ; the cursor resumes with entry c+1 in order, so the
// follower's log holds exactly the leader's entries c+1..n-1 and nothing else, every offset the quorum tracker
// counts for this follower is really stored by it, and its old divergent content is gone.
func ZZCursorSnapshot(n, c, behind int) {
	T := int64(3)
	// leader
	wl := zzNewWal("l")
	ml := &zzKV{}
	dl, _ := kv.NewDB("zz", 1, &zzFactory{kv: ml}, 0, nil)
	for i := 0; i < n; i++ {
		e := zzPutEntry(i, 2, byte(10+i))
		_ = wl.AppendAsync(e)
		if i <= c {
			_, _ = dl.ProcessWrite(&proto.WriteRequest{Puts: []*proto.PutRequest{{Key: "k", Value: []byte{byte(10 + i)}}}}, int64(i), e.Timestamp, WrapperUpdateOperationCallback)
		}
	}
	wl.lastSynced = wl.lastAppended
	_ = dl.UpdateTerm(T, kv.TermOptions{})
	head := int64(n - 1)
	// follower
	wf := zzNewWal("f")
	mf := &zzKV{}
	ack0 := int64(-1)
	if behind == 1 {
		// the leader has trimmed everything below c; the follower still has a divergent entry 0 of term 1
		vAssume(c >= 1)
		wl.ents = wl.ents[c:]
		wl.first = int64(c)
		_ = wf.AppendAsync(&proto.LogEntry{Term: 1, Offset: 0, Value: []byte{99}})
		wf.lastSynced = wf.lastAppended
		df, _ := kv.NewDB("zz", 1, &zzFactory{kv: mf}, 0, nil)
		_, _ = df.ProcessWrite(&proto.WriteRequest{Puts: []*proto.PutRequest{{Key: "stale", Value: []byte{99}}}}, 0, 1, WrapperUpdateOperationCallback)
		ack0 = 0
	}
	ff := &zzFactory{kv: mf, fromChunks: true}
	fc0, err := NewFollowerController(zzConfig(), "zz", 1, &zzWalFactory{wf}, ff)
	vAssert("follower-open", err == nil)
	fol := fc0.(*followerController)
	_, err = fol.NewTerm(&proto.NewTermRequest{Namespace: "zz", Shard: 1, Term: T})
	vAssert("follower-fenced-in-the-leader's-term", err == nil)

	q := NewQuorumAckTracker(3, head, int64(c))
	rpc := &zzPipeRpc{fol: fol}
	cur0, err := NewFollowerCursor("f1", T, "zz", 1, rpc, q, wl, dl, ack0)
	vAssert("cursor-created", err == nil)
	cur := cur0.(*followerCursor)

	// block until a quorum (leader + this follower, RF 3) stores the leader's head: the follower has then installed
	// the snapshot and acknowledged every later entry (a schedule in which that never happens is a deadlock finding)
	vAssume(head > int64(c))
	werr := q.WaitForCommitOffset(context.Background(), head)
	vAssert("follower-caught-up", werr == nil && q.CommitOffset() == head)
	vSettle(20)
	vAssert("a-snapshot-was-sent", rpc.snap != nil && ml.snapshots == 1)
	vAssert("snapshot-closed", ml.snapshotsClosed == 1)
	if rpc.rep != nil && n-1 > c {
		vAssert("streaming-resumes-right-after-the-snapshot", rpc.rep.first == int64(c)+1)
	}
	_ = cur.Close()
	vSettle(20)
	// what the follower claims it holds, it holds
	fol.Lock()
	vAssert("follower-head-is-the-leader's-head", fol.lastAppendedOffset == head)
	db := fol.db
	fol.Unlock()
	vAssert("stale-log-content-gone", wf.first == -1 || wf.first == int64(c)+1)
	for o := int64(c) + 1; o <= head; o++ {
		vAssert("entry-present", o >= wf.first && o <= wf.lastAppended)
		if o >= wf.first && o <= wf.lastAppended {
			vAssert("entry-is-the-leader's", wf.at(o).term == 2 && wf.at(o).offset == o)
		}
	}
	vAssert("nothing-beyond-the-leader's-head", wf.lastAppended == head || (wf.lastAppended == -1 && head == int64(c)))
	co, cerr := db.ReadCommitOffset()
	vAssert("snapshot-state-covers-what-was-acknowledged", cerr == nil && co >= int64(c))
	gr, gerr := db.Get(&proto.GetRequest{Key: "k", IncludeValue: true})
	vAssert("snapshot-state-is-the-leader's-state", gerr == nil && gr.Status == proto.Status_OK && gr.Value[0] == byte(10+co) && gr.Version.ModificationsCount == co)
	sr, serr := db.Get(&proto.GetRequest{Key: "stale"})
	vAssert("stale-db-content-gone", serr == nil && sr.Status == proto.Status_KEY_NOT_FOUND)
	t, _, terr := db.ReadTerm()
	vAssert("term-survives-the-snapshot", terr == nil && t == T)
	vReach("end")
}
