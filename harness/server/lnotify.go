package server

import (
	"context"

	"github.com/oxia-db/oxia/proto"
	"github.com/oxia-db/oxia/server/kv"
)

type zzNotifCb struct {
	got  *[]*proto.NotificationBatch
	next chan int64
	done chan error
}

func (c zzNotifCb) OnNext(b *proto.NotificationBatch) error {
	*c.got = append(*c.got, b)
	c.next <- b.Offset
	return nil
}
func (c zzNotifCb) OnComplete(err error) { c.done <- err }

// ZZLeaderNotify (C17, leader side): the real leaderController.GetNotifications dispatcher on an RF-3
// leader with notifications enabled. A symbolic program of `steps` steps: a client writes key k<i>, a
// follower acknowledges its next offset (real quorum tracker), or — once — a fresh subscriber (no start
// offset) connects. Then every pending write is acknowledged. The subscriber must be positioned exactly on
// the commit offset at the moment it subscribed (never on an uncommitted offset), and must then receive
// exactly one batch for every write committed after that point, in offset order, carrying that write's
// key — nothing for what was committed before, nothing twice.
func ZZLeaderNotify(steps int) {
	w, m := zzLeaderState(1, 0)
	d, err := kv.NewDB("zz", 1, &zzFactory{kv: m}, 0, nil)
	vAssert("db-open", err == nil)
	vAssert("term-store", d.UpdateTerm(3, kv.TermOptions{NotificationsEnabled: true}) == nil)
	lci, err := NewLeaderController(zzConfig(), "zz", 1, &zzRpc{followers: map[string]*followerController{}}, &zzWalFactory{w}, &zzFactory{kv: m})
	vAssert("leader-open", err == nil)
	lc := lci.(*leaderController)
	_, err = lc.BecomeLeader(context.Background(), &proto.BecomeLeaderRequest{Term: 3, ReplicationFactor: 3,
		FollowerMaps: map[string]*proto.EntryId{"f1": {Term: 2, Offset: 0}, "f2": {Term: 2, Offset: 0}}})
	vAssert("leading", err == nil && lc.status == proto.ServingStatus_LEADER)
	acker := lc.followers["f1"].(*followerCursor).cursorAcker
	const maxW = 4
	var ok, bad [maxW + 1]int
	var res [maxW + 1]*proto.WriteResponse
	keys := []string{"", "k1", "k2", "k3", "k4"}
	written, acked := int64(0), int64(0)
	subscribed := false
	subAt := int64(-1) // commit offset at the moment of subscription
	var got []*proto.NotificationBatch
	cb := zzNotifCb{&got, make(chan int64, 16), make(chan error, 1)}
	sctx, cancel := context.WithCancel(context.Background())
	for s := 0; s < steps; s++ {
		switch vChoice("op", 3) {
		case 0:
			vAssume(written < maxW)
			written++
			lc.Write(context.Background(), &proto.WriteRequest{Puts: []*proto.PutRequest{{Key: keys[written], Value: []byte{1}}}}, zzWCb{&ok[written], &bad[written], &res[written]})
		case 1:
			vAssume(acked < written)
			acked++
			acker.Ack(acked)
		case 2:
			vAssume(!subscribed)
			subscribed = true
			subAt = acked // RF 3: the leader plus one follower is a quorum
			lc.GetNotifications(sctx, &proto.NotificationsRequest{Shard: 1}, cb)
			first := <-cb.next
			vAssert("fresh-subscriber-positioned-on-the-commit-offset", first == subAt)
			vAssert("positioning-batch-is-empty", len(got) == 1 && len(got[0].Notifications) == 0)
		}
	}
	for acked < written {
		acked++
		acker.Ack(acked)
	}
	if subscribed {
		expect := subAt + 1
		for expect <= written {
			o := <-cb.next
			vAssert("one-batch-per-committed-write-in-order", o == expect)
			b := got[expect-subAt]
			_, has := b.Notifications[keys[expect]]
			vAssert("batch-carries-the-writes-key", len(b.Notifications) == 1 && has)
			expect++
		}
		cancel()
		<-cb.done
		vAssert("nothing-twice-nothing-extra", int64(len(got)) == 1+written-subAt)
	}
	vReach("end")
}
