package server

import (
	"context"

	"github.com/oxia-db/oxia/proto"
)

type zzGetCb struct {
	got  *[]*proto.GetResponse
	done chan error
}

func (c zzGetCb) OnNext(r *proto.GetResponse) error { *c.got = append(*c.got, r); return nil }
func (c zzGetCb) OnComplete(err error)              { c.done <- err }

// ZZLinear (C02): a serving leader with RF 3 and a symbolic client / replication history of `steps`
// steps over one key: issue the next write (value = its offset), follower f1 or f2 acknowledges its
// next offset (the harness plays the follower cursor through the REAL cursor acker of the real quorum
// tracker), a client reads through the public Read path — optionally overlapping with an acknowledgement —
// or the client of the latest write goes away (its context ends before or after the write was issued: the
// write is logged, committed and applied all the same). The history must be explained by ONE
// sequential order — the log order: a write is acknowledged only once a quorum (leader + one follower)
// stores it; a read returns the state after some write r with (last write acknowledged before the read
// began) <= r <= (quorum commit point when it returned), never an uncommitted write; reads are monotonic;
// version = offset, modification count = number of writes. Then the leader is fenced: every pending
// write fails exactly once and nothing is served any more.
func ZZLinear(steps int) {
	w, m := zzLeaderState(1, 0)
	lc := zzLeaderOver(w, m, 3, &zzRpc{followers: map[string]*followerController{}})
	_, err := lc.BecomeLeader(context.Background(), &proto.BecomeLeaderRequest{Term: 3, ReplicationFactor: 3,
		FollowerMaps: map[string]*proto.EntryId{"f1": {Term: 2, Offset: 0}, "f2": {Term: 2, Offset: 0}}})
	vAssert("leading", err == nil && lc.status == proto.ServingStatus_LEADER)
	ackers := []CursorAcker{lc.followers["f1"].(*followerCursor).cursorAcker, lc.followers["f2"].(*followerCursor).cursorAcker}
	const maxW = 4
	var ok, bad [maxW + 1]int
	var res [maxW + 1]*proto.WriteResponse
	var cancels [maxW + 1]context.CancelFunc
	written := int64(0) // offsets 1..written hold the writes
	acked := []int64{0, 0}
	lastRead := int64(0)
	commit := func() int64 {
		if acked[0] > acked[1] {
			return acked[0]
		}
		return acked[1]
	}
	ackedToClient := func() int64 {
		h := int64(0)
		for i := int64(1); i <= written; i++ {
			if ok[i] == 1 {
				h = i
			}
		}
		return h
	}
	for s := 0; s < steps; s++ {
		switch vChoice("op", 5) {
		case 4:
			// the client of the latest write goes away (stream closed, deadline): the leader must not care
			vAssume(written > 0)
			cancels[written]()
		case 0:
			vAssume(written < maxW)
			written++
			i := written
			ctx, cancel := context.WithCancel(context.Background())
			cancels[i] = cancel
			if vBool("client-already-gone") {
				cancel()
			}
			lc.Write(ctx, &proto.WriteRequest{Puts: []*proto.PutRequest{{Key: "k", Value: []byte{byte(i)}}}}, zzWCb{&ok[i], &bad[i], &res[i]})
			vAssert("write-is-logged-at-the-next-offset", w.lastAppended == i)
		case 1, 2:
			f := 0
			if s%2 == 1 { // which follower: decided by the step parity to halve the symmetric cases
				f = 1
			}
			vAssume(acked[f] < written)
			acked[f]++
			ackers[f].Ack(acked[f])
		case 3:
			floor := ackedToClient()
			var got []*proto.GetResponse
			cb := zzGetCb{&got, make(chan error, 1)}
			lc.Read(context.Background(), &proto.ReadRequest{Gets: []*proto.GetRequest{{Key: "k", IncludeValue: true}}}, cb)
			if vBool("overlapping-ack") {
				// a follower acknowledgement (commit + apply + client acknowledgement) races with the read
				f := s % 2
				vAssume(acked[f] < written)
				acked[f]++
				ackers[f].Ack(acked[f])
			}
			rerr := <-cb.done
			vAssert("read-served", rerr == nil && len(got) == 1 && got[0].Status == proto.Status_OK)
			if rerr == nil && len(got) == 1 {
				r := got[0].Version.VersionId
				vAssert("read-never-returns-uncommitted-data", r <= commit())
				vAssert("read-sees-every-write-acknowledged-before-it", r >= floor)
				vAssert("reads-are-monotonic", r >= lastRead)
				vAssert("read-state-is-the-fold-of-the-log-prefix", int64(got[0].Value[0]) == r && got[0].Version.ModificationsCount == r)
				lastRead = r
			}
		}
		// C06 / C07: whatever the clients do, the leader's DB is the fold of exactly the committed prefix —
		// no committed entry skipped, none applied early
		if dco, derr := lc.db.ReadCommitOffset(); true {
			vAssert("leader-db-is-the-committed-prefix-after-every-step", derr == nil && dco == commit())
			dg, gerr := lc.db.Get(&proto.GetRequest{Key: "k", IncludeValue: true})
			vAssert("leader-db-state-is-the-fold-of-that-prefix", gerr == nil && dg.Status == proto.Status_OK && dg.Version.VersionId == dco && dg.Version.ModificationsCount == dco && int64(dg.Value[0]) == dco)
		}
		for i := int64(1); i <= written; i++ {
			vAssert("write-acknowledged-at-most-once", ok[i]+bad[i] <= 1)
			vAssert("no-failure-while-leading", bad[i] == 0)
			if ok[i] == 1 {
				vAssert("acknowledged-write-is-quorum-stored", i <= commit())
				vAssert("acknowledged-with-its-own-version", res[i].Puts[0].Status == proto.Status_OK && res[i].Puts[0].Version.VersionId == i)
			}
			if i <= commit() {
				vAssert("quorum-stored-write-is-acknowledged", ok[i] == 1)
			}
		}
	}
	// fencing: unknown outcome for every pending write, reported exactly once; nothing is served afterwards
	_, err = lc.NewTerm(&proto.NewTermRequest{Term: 4})
	vAssert("fenced", err == nil)
	for i := int64(1); i <= written; i++ {
		vAssert("every-write-answered-exactly-once", ok[i]+bad[i] == 1)
		vAssert("pending-write-failed", (ok[i] == 1) == (i <= commit()))
	}
	var got []*proto.GetResponse
	cb := zzGetCb{&got, make(chan error, 1)}
	lc.Read(context.Background(), &proto.ReadRequest{Gets: []*proto.GetRequest{{Key: "k", IncludeValue: true}}}, cb)
	vAssert("deposed-node-that-knows-the-new-term-serves-nothing", <-cb.done != nil && len(got) == 0)
	co, _ := lc.db.ReadCommitOffset()
	vAssert("applied-state-is-the-committed-prefix", co == commit())
	vReach("end")
}
