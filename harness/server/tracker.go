package server

import "context"

type zzCb struct {
	done *int64
	errs *int64
}

func (c zzCb) OnComplete(_ any)        { *c.done = *c.done + 1 }
func (c zzCb) OnCompleteError(_ error) { *c.errs = *c.errs + 1 }

// zzExpectedCommit: the property's definition — the highest offset whose whole prefix (above the old
// commit offset) is acknowledged by at least `required` cursors. acked[c] = number of offsets above
// `commit` that cursor c has acknowledged (per-cursor acks are gap-free, see DESIGN §5.21).
func zzExpectedCommit(commit, head int64, required int, acked []int64) int64 {
	res := commit
	for o := commit + 1; o <= head; o++ {
		cnt := 0
		for _, a := range acked {
			if commit+a >= o {
				cnt++
			}
		}
		if cnt < required {
			break
		}
		res = o
	}
	return res
}

// ZZTrackerStep: inductive step of the real quorumAckTracker. Arbitrary reachable state (window w =
// head-commit, every cursor has acknowledged an arbitrary gap-free prefix of the window, no tracked
// offset has reached the quorum yet), two pending waiters, then ONE acknowledgement: the next offset
// of some cursor, or a duplicate / already-committed / out-of-window offset.
func ZZTrackerStep(rf, w int) {
	commit := vInt64("commit")
	vAssume(commit >= -1)
	vAssume(commit < 1000000)
	head := commit + int64(w)
	q := NewQuorumAckTracker(uint32(rf), head, commit).(*quorumAckTracker)
	required := rf / 2
	ncur := rf - 1
	acked := make([]int64, ncur)
	for c := 0; c < ncur; c++ {
		k := vChoice("acked", w+1)
		acked[c] = int64(k)
		for i := 1; i <= k; i++ {
			q.tracker[commit+int64(i)].Set(c)
		}
	}
	q.cursorIdxGenerator = ncur
	// representation invariant: nothing in the window has a quorum yet
	vAssume(zzExpectedCommit(commit, head, required, acked) == commit)

	var d1, e1, d2, e2 int64
	w1 := commit + 1 + int64(vChoice("wait1", w+1))
	w2 := w1 + int64(vChoice("wait2", 2))
	q.WaitForCommitOffsetAsync(nil, w1, zzCb{&d1, &e1})
	q.WaitForCommitOffsetAsync(nil, w2, zzCb{&d2, &e2})
	vAssert("not-yet-committed-not-notified", d1 == 0 && d2 == 0)

	c := vChoice("cursor", ncur)
	ca := &cursorAcker{quorumTracker: q, cursorIdx: c}
	kind := vChoice("kind", 3)
	var o int64
	switch kind {
	case 0: // the cursor's next offset
		o = commit + acked[c] + 1
		if o <= head {
			acked[c]++
		}
	case 1: // duplicate or already committed
		o = vInt64("dup")
		vAssume(o <= commit+acked[c])
		vAssume(o >= -1)
	default: // beyond the head (stale cursor of an earlier term, bug elsewhere): must be ignored
		o = head + 1 + int64(vChoice("beyond", 3))
	}
	ca.Ack(o)

	nc := q.CommitOffset()
	exp := zzExpectedCommit(commit, head, required, acked)
	vObserve("commit-delta", nc-commit)
	vAssert("commit-monotone", nc >= commit)
	vAssert("commit<=head", nc <= q.HeadOffset())
	vAssert("head-unchanged", q.HeadOffset() == head)
	vAssert("commit=highest-quorum-acked-prefix", nc == exp)
	vAssert("waiter1-iff-committed", (d1 == 1) == (nc >= w1))
	vAssert("waiter2-iff-committed", (d2 == 1) == (nc >= w2))
	vAssert("no-waiter-error", e1 == 0 && e2 == 0)
	vAssert("at-most-once", d1 <= 1 && d2 <= 1)
	for off := commit + 1; off <= head; off++ {
		_, tracked := q.tracker[off]
		vAssert("tracked=uncommitted-window", tracked == (off > nc))
	}
	vReach("end")
}

// ZZTrackerHistory: from the real constructor, a sequence of head advances, cursor attachments and
// in-order acknowledgements; checks the same commit rule after every step, ErrTooManyCursors at RF-1,
// and that Close fails the remaining waiters exactly once.
func ZZTrackerHistory(rf, steps int) {
	commit0 := int64(-1)
	q := NewQuorumAckTracker(uint32(rf), -1, commit0).(*quorumAckTracker)
	required := rf / 2
	var cursors []CursorAcker
	var acked []int64 // per cursor: highest acked offset
	head := int64(-1)
	var dn, en int64
	waitFor := int64(vChoice("waitFor", steps+1))
	q.WaitForCommitOffsetAsync(nil, waitFor, zzCb{&dn, &en})
	prevCommit := q.CommitOffset()
	for s := 0; s < steps; s++ {
		switch vChoice("op", 3) {
		case 0:
			head = q.NextOffset()
			q.AdvanceHeadOffset(head)
		case 1:
			at := int64(vChoice("attach", steps+1)) - 1
			ca, err := q.NewCursorAcker(at)
			if len(cursors) >= rf-1 {
				vAssert("too-many-cursors-rejected", err == ErrTooManyCursors)
			} else if at > head {
				vAssert("attach-beyond-head-rejected", err == ErrInvalidHeadOffset)
			} else {
				vAssert("attach-ok", err == nil)
				cursors = append(cursors, ca)
				a := at
				if a < q.CommitOffset() {
					a = q.CommitOffset()
				}
				acked = append(acked, a)
			}
		default:
			if len(cursors) > 0 {
				c := vChoice("cursor", len(cursors))
				if acked[c] < head {
					acked[c]++
					cursors[c].Ack(acked[c])
				}
			}
		}
		nc := q.CommitOffset()
		vAssert("commit-monotone", nc >= prevCommit)
		vAssert("commit<=head", nc <= q.HeadOffset())
		// expected: highest offset o such that every offset <= o is acked by >= required cursors
		exp := int64(-1)
		for o := int64(0); o <= head; o++ {
			cnt := 0
			for _, a := range acked {
				if a >= o {
					cnt++
				}
			}
			if cnt < required {
				break
			}
			exp = o
		}
		vAssert("commit=highest-quorum-acked-prefix", nc == exp)
		vAssert("waiter-iff-committed", (dn == 1) == (required == 0 && waitFor <= 1<<40 || nc >= waitFor))
		prevCommit = nc
	}
	q.Close()
	vAssert("close-fails-pending-once", dn+en == 1)
	vReach("end")
}

// ZZTrackerRace (C08): writers and follower acknowledgements race on the real quorum tracker. k writers
// each do what leaderController.write does after the WAL append — AdvanceHeadOffset(o),
// WaitForCommitOffsetAsync(o, cb) — while a follower cursor acknowledges offsets 0..k-1 in order, with
// preemption at every lock acquisition / release of the tracker. Whatever the interleaving: once every
// offset is stored by a quorum (RF 2: leader + the follower) every writer has been answered, exactly
// once, without error — no write is left hanging with commit == head. (`rounds` repeats the scenario; it is
// 1 in the symbolic run and raised for the native replay of a counterexample schedule.)
func ZZTrackerRace(k, rounds int) {
	for r := 0; r < rounds; r++ {
		zzTrackerRaceOnce(k)
	}
	vReach("end")
}

func zzTrackerRaceOnce(k int) {
	q := NewQuorumAckTracker(2, -1, -1).(*quorumAckTracker)
	ca, err := q.NewCursorAcker(-1)
	vAssert("cursor-attached", err == nil)
	dn := make([]int64, k)
	en := make([]int64, k)
	done := make(chan int, k+1)
	appended := make(chan int64, k) // the replication stream: the follower sees an entry after it is appended
	vGo("writers", func() {
		for i := 0; i < k; i++ {
			o := q.NextOffset()
			q.AdvanceHeadOffset(o)
			appended <- o
			q.WaitForCommitOffsetAsync(context.Background(), o, zzCb{&dn[i], &en[i]})
		}
		done <- 0
	})
	vGo("follower", func() {
		for i := 0; i < k; i++ {
			ca.Ack(<-appended)
		}
		done <- 1
	})
	<-done
	<-done
	vAssert("everything-committed", q.CommitOffset() == int64(k-1) && q.HeadOffset() == int64(k-1))
	for i := 0; i < k; i++ {
		vAssert("quorum-stored-write-is-answered-exactly-once", dn[i] == 1 && en[i] == 0)
	}
}
