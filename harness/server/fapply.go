package server

import (
	"context"

	"github.com/oxia-db/oxia/proto"
	"github.com/oxia-db/oxia/server/kv"
)

// ZZFollowerApply (C07, follower side): a follower whose WAL holds n entries (each a put of key "k" with
// the entry's offset as value) and whose DB has applied them up to a symbolic commit offset c receives k
// further entries on a Replicate stream, each advertising a symbolic, non-decreasing commit offset. At
// quiescence, whatever the schedule of stream handler, sync loop and apply loop: the DB's commit offset is
// an offset the leader advertised (or the old one), never beyond the synced log, and the applied state is
// exactly the fold of the log prefix up to it — every entry applied once, in order (version = offset,
// modification count = offset, value = offset).
func ZZFollowerApply(n, k int) {
	total := n + k
	T := int64(3)
	g := &zzGhost{term: make([]int64, total), val: make([]byte, total)}
	w := zzNewWal("f")
	m := &zzKV{}
	d, _ := kv.NewDB("zz", 1, &zzFactory{kv: m}, 0, nil)
	c := vChoice("applied", n+1) - 1 // -1 .. n-1
	for i := 0; i < total; i++ {
		g.term[i] = T
		g.val[i] = byte(i)
	}
	for i := 0; i < n; i++ {
		e := zzPutEntry(i, T, byte(i))
		_ = w.AppendAsync(e)
		if i <= c {
			_, _ = d.ProcessWrite(&proto.WriteRequest{Puts: []*proto.PutRequest{{Key: "k", Value: []byte{byte(i)}}}}, int64(i), e.Timestamp, WrapperUpdateOperationCallback)
		}
	}
	w.lastSynced = w.lastAppended
	fc := zzFollowerOver(w, m, T)
	vAssert("restart-resumes-from-the-db-commit-offset", fc.commitOffset.Load() == int64(c))
	st := &zzRepStream{ctx: context.Background(), in: make(chan *proto.Append, 8), w: w, ghost: g, payloadIsEntry: true}
	done := make(chan error, 1)
	vGo("replicate", func() { done <- fc.Replicate(st) })
	adv := int64(c)
	maxAdv := adv
	for o := n; o < total; o++ {
		step := int64(vChoice("commit-step", 3))
		adv += step
		vAssume(adv <= int64(o)) // a leader never advertises beyond what it has sent... plus what this follower may lack: bounded by the entry being sent
		if adv > maxAdv {
			maxAdv = adv
		}
		st.in <- &proto.Append{Term: T, Entry: zzPutEntry(o, T, byte(o)), CommitOffset: adv}
	}
	vSettle(30)
	close(st.in)
	<-done
	vSettle(30)
	_ = fc.Close()
	d2, err := kv.NewDB("zz", 1, &zzFactory{kv: m}, 0, nil)
	vAssert("reopen", err == nil)
	co, _ := d2.ReadCommitOffset()
	vAssert("commit-offset-was-advertised", co <= maxAdv && co >= int64(c))
	vAssert("commit-offset-within-the-synced-log", co <= w.lastSynced)
	if co >= 0 {
		gr, gerr := d2.Get(&proto.GetRequest{Key: "k", IncludeValue: true})
		vAssert("state-is-the-fold-of-the-log-prefix", gerr == nil && gr.Status == proto.Status_OK && int64(gr.Value[0]) == co && gr.Version.VersionId == co && gr.Version.ModificationsCount == co)
	}
	vReach("end")
}

// ZZFollowerApplyDup (C07): apply rounds under RE-DELIVERY. The follower's apply loop (the real
// applyAllCommittedEntries goroutine) runs while the harness plays the stream handler, calling the real append
// directly: k new entries with symbolic non-decreasing commit offsets, each synced and announced to the apply
// loop, then — as after a cursor reconnect — the last entry AGAIN (a duplicate) advertising a commit offset
// that has advanced to it, then one more entry. Opening a log reader is a schedule point, so an apply round in
// progress can be overtaken at its start. Apply rounds never overlap (at most one reader of the apply path is
// open at any time), and at quiescence the state is the fold of the log prefix: each entry applied once, in order.
func ZZFollowerApplyDup(n, k int) {
	total := n + k + 1
	T := int64(3)
	g := &zzGhost{term: make([]int64, total), val: make([]byte, total)}
	w := zzNewWal("f")
	m := &zzKV{}
	d, _ := kv.NewDB("zz", 1, &zzFactory{kv: m}, 0, nil)
	c := vChoice("applied", n+1) - 1
	for i := 0; i < total; i++ {
		g.term[i] = T
		g.val[i] = byte(i)
	}
	for i := 0; i < n; i++ {
		e := zzPutEntry(i, T, byte(i))
		_ = w.AppendAsync(e)
		if i <= c {
			_, _ = d.ProcessWrite(&proto.WriteRequest{Puts: []*proto.PutRequest{{Key: "k", Value: []byte{byte(i)}}}}, int64(i), e.Timestamp, WrapperUpdateOperationCallback)
		}
	}
	w.lastSynced = w.lastAppended
	fc := zzFollowerOver(w, m, T)
	w.yieldOnRead = true
	w.openFwd, w.maxOpenFwd = 0, 0
	st := &zzRepStream{ctx: context.Background(), in: make(chan *proto.Append, 1), w: w, ghost: g, payloadIsEntry: true, noAckOracle: true}
	adv := int64(c)
	deliver := func(o int, commit int64) {
		vAssert("append-accepted", fc.append(&proto.Append{Term: T, Entry: zzPutEntry(o, T, byte(o)), CommitOffset: commit}, st) == nil)
		// what the sync loop does after an append
		w.lastSynced = w.lastAppended
		fc.applyEntriesCond.Signal()
		vYield("after-append")
		vSettle(5)
	}
	for o := n; o < n+k; o++ {
		adv += int64(vChoice("commit-step", 3))
		vAssume(adv <= int64(o))
		deliver(o, adv)
	}
	deliver(n+k-1, int64(n+k-1)) // the re-delivered duplicate: the leader's commit offset has advanced meanwhile
	deliver(n+k, int64(n+k-1))
	maxAdv := int64(n + k - 1)
	// let the apply loop drain
	for i := 0; i < 8 && fc.commitOffset.Load() < maxAdv; i++ {
		fc.applyEntriesCond.Signal()
		vYield("drain")
		vSettle(10)
	}
	vAssert("apply-rounds-never-overlap", w.maxOpenFwd <= 1)
	_ = fc.Close()
	d2, err := kv.NewDB("zz", 1, &zzFactory{kv: m}, 0, nil)
	vAssert("reopen", err == nil)
	co, _ := d2.ReadCommitOffset()
	vAssert("commit-offset-was-advertised", co <= maxAdv && co >= int64(c))
	if co >= 0 {
		gr, gerr := d2.Get(&proto.GetRequest{Key: "k", IncludeValue: true})
		vAssert("state-is-the-fold-of-the-log-prefix", gerr == nil && gr.Status == proto.Status_OK && int64(gr.Value[0]) == co && gr.Version.VersionId == co && gr.Version.ModificationsCount == co)
	}
	vReach("end")
}
