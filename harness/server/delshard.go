package server

import (
	"context"

	"github.com/oxia-db/oxia/proto"
)

// ZZDeleteShard (C01 / C04): a DeleteShard request with an arbitrary (symbolic) term reaches a node that
// holds a copy of the shard in term T — through the real shards director, as the coordinator's RPC does —
// while the node's controller is (kind 0) a follower, (1) a fenced leader controller, which is what every
// restarted or deposed node is until the new leader connects, or (2) a serving leader. A request of an OLDER
// term (a late re-delivery from before the node was last fenced) must be refused and must leave the node's
// log and state alone: that copy may be one of the quorum that stores an acknowledged write. A request of
// the current or a newer term wipes the copy.
func ZZDeleteShard(kind, n int) {
	T := int64(5)
	w, m := zzLeaderState(n, n-1)
	cl := &zzRpc{followers: map[string]*followerController{}}
	var dir ShardsDirector
	// persist term T, then build the node through the real director
	_ = zzLeaderOver(w, m, T, cl).Close()
	w.closed = false
	m.closed = false
	dir = NewShardsDirector(zzConfig(), &zzWalFactory{w}, &zzFactory{kv: m}, cl)
	switch kind {
	case 0:
		_, err := dir.GetOrCreateFollower("zz", 1, T)
		vAssert("follower-open", err == nil)
	default:
		lc, err := dir.GetOrCreateLeader("zz", 1)
		vAssert("leader-open", err == nil)
		if kind == 2 {
			_, err = lc.BecomeLeader(context.Background(), &proto.BecomeLeaderRequest{Namespace: "zz", Shard: 1, Term: T, ReplicationFactor: 1})
			vAssert("leading", err == nil)
		}
	}
	entriesBefore := len(w.ents)
	keysBefore := len(m.ents)
	t := vInt64("deleteTerm")
	vAssume(t >= 0)
	vAssume(t < 12)
	_, err := dir.DeleteShard(&proto.DeleteShardRequest{Namespace: "zz", Shard: 1, Term: t})
	if t < T {
		vReach("stale")
		vAssert("stale-delete-is-refused", err != nil)
		vAssert("stale-delete-leaves-the-log-alone", len(w.ents) == entriesBefore && w.lastAppended == int64(n-1))
		vAssert("stale-delete-leaves-the-state-alone", len(m.ents) == keysBefore)
	} else {
		vReach("current")
		vAssert("current-delete-is-accepted", err == nil)
		vAssert("copy-wiped", len(w.ents) == 0 && len(m.ents) == 0)
	}
	vReach("end")
}
