package server

import (
	"context"

	"github.com/oxia-db/oxia/proto"
)

// ZZFollowerRedeliver (C03): a follower fenced in term T with n entries is truncated by the leader of T to
// head h (symbolic), receives and acknowledges k further entries of that leader on a Replicate stream, and
// then sees late re-deliveries of the control messages of the same term: variant 0 = the same Truncate
// again; variant 1 = the same NewTerm(T) again and then the same Truncate again; variant 2 = a NewTerm(T)
// duplicate only. Whatever is re-delivered, every offset the follower has acknowledged to this leader is
// still durably stored with this leader's entry.
func ZZFollowerRedeliver(n, k, variant int) {
	total := n + k
	T := int64(3)
	g := &zzGhost{term: make([]int64, total), val: vBytes("payload", total)}
	for i := range g.term {
		g.term[i] = T - 1
	}
	w := zzNewWal("f")
	for i := 0; i < n; i++ {
		_ = w.AppendAsync(&proto.LogEntry{Term: g.term[i], Offset: int64(i), Value: []byte{g.val[i]}})
	}
	w.lastSynced = w.lastAppended
	m := &zzKV{}
	fc := zzFollowerOver(w, m, T)
	vAssert("restarts-fenced", fc.status == proto.ServingStatus_FENCED)
	h := int64(vChoice("truncate-to", n+1)) - 1 // -1 .. n-1
	treq := &proto.TruncateRequest{Namespace: "zz", Shard: 1, Term: T, HeadEntryId: &proto.EntryId{Term: T - 1, Offset: h}}
	if h == -1 {
		treq.HeadEntryId.Term = -1
	}
	_, err := fc.Truncate(treq)
	vAssert("first-truncate-accepted", err == nil)
	vAssert("truncated-to-head", w.lastAppended == h)
	// the leader of term T writes its own entries after h
	for o := int(h) + 1; o < total; o++ {
		g.term[o] = T
	}
	st := &zzRepStream{ctx: context.Background(), in: make(chan *proto.Append, 8), w: w, ghost: g}
	done := make(chan error, 1)
	vGo("replicate", func() { done <- fc.Replicate(st) })
	sent := 0
	for o := int(h) + 1; o < total && sent < k; o++ {
		st.in <- &proto.Append{Term: T, Entry: &proto.LogEntry{Term: T, Offset: int64(o), Value: []byte{g.val[o]}}, CommitOffset: h}
		sent++
	}
	vSettle(30) // natively: give the sync loop time to acknowledge (no effect on the symbolic run)
	close(st.in)
	<-done
	maxAck := int64(-1)
	for _, a := range st.acks {
		if a > maxAck {
			maxAck = a
		}
	}
	if maxAck > h {
		vReach("something-acked")
	}
	// late re-deliveries of the same term's control messages
	if variant == 1 || variant == 2 {
		_, nerr := fc.NewTerm(&proto.NewTermRequest{Namespace: "zz", Shard: 1, Term: T})
		vAssert("same-term-new-term-accepted", nerr == nil)
	}
	if variant == 0 || variant == 1 {
		_, terr := fc.Truncate(treq)
		if terr == nil {
			vReach("redelivered-truncate-accepted")
		} else {
			vReach("redelivered-truncate-refused")
		}
	}
	if vKnown("KF-C03-redelivered-newterm-then-truncate", variant == 1 && maxAck > h) {
		vAssert("acked-entries-still-stored", w.lastAppended >= maxAck && w.lastSynced >= maxAck)
	} else {
		vAssert("acked-entries-still-stored", w.lastAppended >= maxAck && w.lastSynced >= maxAck)
	}
	for o := w.first; o <= maxAck && o <= w.lastAppended && o >= 0; o++ {
		vAssert("acked-prefix-is-the-leaders", w.at(o).term == g.term[o] && w.at(o).value[0] == g.val[o])
	}
	vReach("end")
}

// ZZFollowerAppendFails (C03): the follower's WAL append fails once (transient I/O error) for the next entry
// on the stream: the stream is dropped without an acknowledgement. The leader's cursor reconnects in the
// same term and re-delivers from the last acknowledged offset. Whatever happens, an Ack is only ever sent
// for an offset the follower really stores (the oracle in the model stream's Send), and at quiescence the
// follower's head is its WAL's head.
func ZZFollowerAppendFails(n, k int) {
	total := n + k
	T := int64(3)
	g := &zzGhost{term: make([]int64, total), val: vBytes("payload", total)}
	for i := range g.term {
		g.term[i] = T
	}
	w := zzNewWal("f")
	for i := 0; i < n; i++ {
		_ = w.AppendAsync(&proto.LogEntry{Term: T, Offset: int64(i), Value: []byte{g.val[i]}})
	}
	w.lastSynced = w.lastAppended
	fc := zzFollowerOver(w, &zzKV{}, T)
	failAt := vChoice("fail-at", k) // which of the k new entries hits the I/O error
	acked := int64(n - 1)
	for round := 0; round < 2; round++ {
		st := &zzRepStream{ctx: context.Background(), in: make(chan *proto.Append, 8), w: w, ghost: g}
		done := make(chan error, 1)
		vGo("replicate", func() { done <- fc.Replicate(st) })
		for o := int(acked) + 1; o < total; o++ {
			if round == 0 && o == n+failAt {
				w.failAppends = 1
			}
			st.in <- &proto.Append{Term: T, Entry: &proto.LogEntry{Term: T, Offset: int64(o), Value: []byte{g.val[o]}}, CommitOffset: acked}
		}
		vSettle(30)
		close(st.in)
		<-done
		for _, a := range st.acks {
			if a > acked {
				acked = a
			}
		}
		w.failAppends = 0
	}
	vAssert("acked-entries-are-stored", w.lastAppended >= acked && w.lastSynced >= acked)
	vAssert("head-tracks-wal", fc.lastAppendedOffset == w.lastAppended)
	for o := int64(0); o <= w.lastAppended; o++ {
		vAssert("stored-entry-is-leaders-entry", w.at(o).term == g.term[o] && w.at(o).value[0] == g.val[o])
	}
	vReach("end")
}
