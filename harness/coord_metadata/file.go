package metadata

import (
	"errors"
	"os"

	"github.com/juju/fslock"

	"github.com/oxia-db/oxia/coordinator/model"
)

// ---- model file system for the file metadata provider (engine side: os.ReadFile / WriteFile / Rename / Stat /
// MkdirAll and the file lock are replaced by these). os.WriteFile is open(O_TRUNC) + write + close: a crash
// in the middle leaves the file truncated; os.Rename is atomic.
var zzFS map[string][]byte
var zzCrashInWrite bool // the process dies inside the next os.WriteFile, after the truncation
var zzCrashed bool

var errZZCrash = errors.New("zz: process died")

func zzReadFile(name string) ([]byte, error) {
	b, ok := zzFS[name]
	if !ok {
		return nil, os.ErrNotExist
	}
	return b, nil
}
func zzWriteFile(name string, data []byte, _ os.FileMode) error {
	zzFS[name] = nil // O_TRUNC
	if zzCrashInWrite {
		zzCrashed = true
		return errZZCrash
	}
	zzFS[name] = data
	return nil
}
func zzRename(from, to string) error {
	b, ok := zzFS[from]
	if !ok {
		return os.ErrNotExist
	}
	zzFS[to] = b
	delete(zzFS, from)
	return nil
}
func zzStat(string) (os.FileInfo, error)   { return nil, nil }
func zzMkdirAll(string, os.FileMode) error { return nil }
func zzLock(*fslock.Lock) error            { return nil }
func zzUnlock(*fslock.Lock) error          { return nil }

// natively: real files
func zzPath() string { return vTempDir() + "/status.json" }

// ZZMetadataFile (C05 / C18): the file metadata provider is where the coordinator makes terms and shard ids
// durable. k successful Stores (each with the version the previous one returned), then — crash = 1 — the
// process dies inside the next Store's file write. A restarted coordinator (a new provider on the same path)
// must read either the status of the last completed Store or the one being written, with its version — never
// "no status", which would make it start from term -1 and shard id 0 again. A Store with a stale version is
// refused.
func ZZMetadataFile(k, crash int) {
	zzFS = map[string][]byte{}
	zzCrashInWrite, zzCrashed = false, false
	path := zzPath()
	p := NewMetadataProviderFile(path)
	cs, ver, err := p.Get()
	vAssert("fresh-store-is-empty", err == nil && cs == nil && ver == NotExists)
	var last *model.ClusterStatus
	for i := 0; i < k; i++ {
		st := &model.ClusterStatus{Namespaces: map[string]model.NamespaceStatus{}, ShardIdGenerator: int64(10 + i), ServerIdx: uint32(i)}
		nv, serr := p.Store(st, ver)
		vAssert("store-ok", serr == nil && nv != ver)
		ver = nv
		last = st
		got, gv, gerr := p.Get()
		vAssert("read-back", gerr == nil && gv == ver && got != nil && got.ShardIdGenerator == st.ShardIdGenerator)
	}
	if crash == 1 {
		zzCrashInWrite = true
		next := &model.ClusterStatus{Namespaces: map[string]model.NamespaceStatus{}, ShardIdGenerator: 99}
		_, _ = p.Store(next, ver) // the process dies in here
		zzCrashInWrite = false
		p2 := NewMetadataProviderFile(path)
		got, gv, gerr := p2.Get()
		vAssert("restart-can-read-the-store", gerr == nil)
		if last != nil {
			vAssert("a-crash-during-a-write-does-not-lose-the-stored-status", got != nil && (got.ShardIdGenerator == last.ShardIdGenerator && gv == ver || got.ShardIdGenerator == 99))
		}
	}
	vReach("end")
}
