package PKG

// Model of the storage engine behind kv.KV / kv.WriteBatch / kv.Factory: a list of (key, value) kept
// sorted by the REAL compare.CompareWithSlash, indexed batches with read-your-writes, iterators that
// see the state at their creation, and a durable prefix for the crash model (Pebble runs with
// DisableWAL: a crash loses every batch committed after the last Flush; a batch is atomic).
// This file is instantiated textually for package kv and package server.

import (
	"io"

	"github.com/oxia-db/oxia/common/compare"
	kvq "github.com/oxia-db/oxia/server/kv" //IMPORT-KV
)

type zzEnt struct {
	k string
	v []byte
}

type zzKV struct {
	snapshots, snapshotsClosed int
	ents     []zzEnt
	durable  []zzEnt
	commits  int
	flushes  int
	closed   bool
	failNext bool // next Commit fails (engine I/O error)
}

type zzCloser struct{}

func (zzCloser) Close() error { return nil }

func zzCmp(a, b string) int { return compare.CompareWithSlash([]byte(a), []byte(b)) }

// zzFind returns the position of key (found) or the position where it would be inserted.
func zzFind(ents []zzEnt, key string) (int, bool) {
	for i := range ents {
		c := zzCmp(ents[i].k, key)
		if c == 0 {
			return i, true
		}
		if c > 0 {
			return i, false
		}
	}
	return len(ents), false
}

func zzInsert(ents []zzEnt, key string, value []byte) []zzEnt {
	i, ok := zzFind(ents, key)
	nw := make([]zzEnt, 0, len(ents)+1)
	nw = append(nw, ents[:i]...)
	nw = append(nw, zzEnt{key, value})
	if ok {
		nw = append(nw, ents[i+1:]...)
	} else {
		nw = append(nw, ents[i:]...)
	}
	return nw
}

func zzRemove(ents []zzEnt, key string) []zzEnt {
	i, ok := zzFind(ents, key)
	if !ok {
		return ents
	}
	nw := make([]zzEnt, 0, len(ents))
	nw = append(nw, ents[:i]...)
	nw = append(nw, ents[i+1:]...)
	return nw
}

// zzRange returns the entries with lo <= k < hi ("" = unbounded on that side).
func zzRange(ents []zzEnt, lo, hi string) []zzEnt {
	var out []zzEnt
	for _, e := range ents {
		if lo != "" && zzCmp(e.k, lo) < 0 {
			continue
		}
		if hi != "" && zzCmp(e.k, hi) >= 0 {
			continue
		}
		out = append(out, e)
	}
	return out
}

func (m *zzKV) Close() error { m.closed = true; return nil }
func (m *zzKV) NewWriteBatch() kvq.WriteBatch {
	return &zzBatch{kv: m, work: m.ents}
}

func (m *zzKV) Get(key string, ct kvq.ComparisonType) (string, []byte, io.Closer, error) {
	i, found := zzFind(m.ents, key)
	switch ct {
	case kvq.ComparisonEqual:
		if found {
			return key, m.ents[i].v, zzCloser{}, nil
		}
	case kvq.ComparisonFloor:
		if found {
			return m.ents[i].k, m.ents[i].v, zzCloser{}, nil
		}
		if i > 0 {
			return m.ents[i-1].k, m.ents[i-1].v, zzCloser{}, nil
		}
	case kvq.ComparisonLower:
		if i > 0 {
			return m.ents[i-1].k, m.ents[i-1].v, zzCloser{}, nil
		}
	case kvq.ComparisonCeiling:
		if i < len(m.ents) {
			return m.ents[i].k, m.ents[i].v, zzCloser{}, nil
		}
	case kvq.ComparisonHigher:
		if found {
			i++
		}
		if i < len(m.ents) {
			return m.ents[i].k, m.ents[i].v, zzCloser{}, nil
		}
	}
	return "", nil, nil, kvq.ErrKeyNotFound
}

func (m *zzKV) KeyRangeScan(lo, hi string) (kvq.KeyIterator, error) { return m.RangeScan(lo, hi) }
func (m *zzKV) KeyRangeScanReverse(lo, hi string) (kvq.ReverseKeyIterator, error) {
	r := zzRange(m.ents, lo, hi)
	return &zzIter{ents: r, pos: len(r) - 1}, nil
}
func (m *zzKV) KeyIterator() (kvq.KeyIterator, error) { return &zzIter{ents: m.ents, pos: -1}, nil }
func (m *zzKV) RangeScan(lo, hi string) (kvq.KeyValueIterator, error) {
	return &zzIter{ents: zzRange(m.ents, lo, hi)}, nil
}
// Snapshot: like the real one, flush first, then a point-in-time copy of the whole store; one "file" per
// entry (name = key, content = value, a single chunk each).
func (m *zzKV) Snapshot() (kvq.Snapshot, error) {
	_ = m.Flush()
	m.snapshots++
	return &zzSnapM{ents: append([]zzEnt(nil), m.ents...), m: m}, nil
}

type zzSnapM struct {
	ents []zzEnt
	pos  int
	m    *zzKV
}

type zzSnapChunkM struct{ e zzEnt }

func (c zzSnapChunkM) Name() string      { return c.e.k }
func (c zzSnapChunkM) Index() int32      { return 0 }
func (c zzSnapChunkM) TotalCount() int32 { return 1 }
func (c zzSnapChunkM) Content() []byte   { return c.e.v }

func (s *zzSnapM) Close() error     { s.m.snapshotsClosed++; return nil }
func (s *zzSnapM) BasePath() string { return "" }
func (s *zzSnapM) Valid() bool      { return s.pos < len(s.ents) }
func (s *zzSnapM) Next() bool       { s.pos++; return s.Valid() }
func (s *zzSnapM) Chunk() (kvq.SnapshotChunk, error) {
	return zzSnapChunkM{s.ents[s.pos]}, nil
}
func (m *zzKV) Flush() error {
	m.flushes++
	m.durable = m.ents
	return nil
}
func (m *zzKV) Delete() error { m.ents = nil; m.durable = nil; m.closed = true; return nil }

// zzCrash: what a process crash leaves behind.
func (m *zzKV) zzCrash() { m.ents = m.durable; m.closed = false }

// ---- batch

type zzBatch struct {
	kv     *zzKV
	work   []zzEnt
	ops    int
	closed bool
}

func (b *zzBatch) Close() error { b.closed = true; return nil }
func (b *zzBatch) Put(key string, value []byte) error {
	b.ops++
	b.work = zzInsert(b.work, key, value)
	return nil
}
func (b *zzBatch) Delete(key string) error {
	b.ops++
	b.work = zzRemove(b.work, key)
	return nil
}
func (b *zzBatch) Get(key string) ([]byte, io.Closer, error) {
	if i, ok := zzFind(b.work, key); ok {
		return b.work[i].v, zzCloser{}, nil
	}
	return nil, nil, kvq.ErrKeyNotFound
}
func (b *zzBatch) FindLower(key string) (string, error) {
	i, _ := zzFind(b.work, key)
	if i == 0 {
		return "", kvq.ErrKeyNotFound
	}
	return b.work[i-1].k, nil
}
func (b *zzBatch) DeleteRange(lo, hi string) error {
	b.ops++
	var nw []zzEnt
	for _, e := range b.work {
		if zzCmp(e.k, lo) >= 0 && zzCmp(e.k, hi) < 0 {
			continue
		}
		nw = append(nw, e)
	}
	b.work = nw
	return nil
}
func (b *zzBatch) KeyRangeScan(lo, hi string) (kvq.KeyIterator, error) { return b.RangeScan(lo, hi) }
func (b *zzBatch) RangeScan(lo, hi string) (kvq.KeyValueIterator, error) {
	// batch iterators take the bounds literally (an empty upper bound is the empty key)
	var out []zzEnt
	for _, e := range b.work {
		if zzCmp(e.k, lo) >= 0 && zzCmp(e.k, hi) < 0 {
			out = append(out, e)
		}
	}
	return &zzIter{ents: out}, nil
}
func (b *zzBatch) Count() int { return b.ops }
func (b *zzBatch) Size() int  { return b.ops }
func (b *zzBatch) Commit() error {
	if b.kv.failNext {
		b.kv.failNext = false
		return io.ErrUnexpectedEOF
	}
	b.kv.ents = b.work
	b.kv.commits++
	return nil
}

// ---- iterator over a snapshot of entries

type zzIter struct {
	ents []zzEnt
	pos  int
}

func (it *zzIter) Close() error { return nil }
func (it *zzIter) Valid() bool  { return it.pos >= 0 && it.pos < len(it.ents) }
func (it *zzIter) Key() string  { return it.ents[it.pos].k }
func (it *zzIter) Next() bool {
	if it.pos < len(it.ents) {
		it.pos++
	}
	return it.Valid()
}
func (it *zzIter) Prev() bool {
	if it.pos >= 0 {
		it.pos--
	}
	return it.Valid()
}
func (it *zzIter) Value() ([]byte, error) { return it.ents[it.pos].v, nil }
func (it *zzIter) SeekGE(key string) bool {
	i, _ := zzFind(it.ents, key)
	it.pos = i
	return it.Valid()
}
func (it *zzIter) SeekLT(key string) bool {
	i, _ := zzFind(it.ents, key)
	it.pos = i - 1
	return it.Valid()
}

// ---- factory

type zzFactory struct {
	kv         *zzKV
	snap       []zzEnt // content installed by a completed snapshot load
	fromChunks bool    // install what the chunks carried (zzKV.Snapshot's format) instead of `snap`
}

type zzLoader struct {
	f        *zzFactory
	chunks   int
	complete bool
	ents     []zzEnt
}

func (l *zzLoader) Close() error { return nil }
func (l *zzLoader) AddChunk(name string, _ int32, _ int32, content []byte) error {
	l.chunks++
	l.ents = append(l.ents, zzEnt{name, content})
	return nil
}
func (l *zzLoader) Complete() {
	l.complete = true
	if l.f.fromChunks {
		l.f.kv.ents = l.ents
		l.f.kv.durable = l.ents
		return
	}
	l.f.kv.ents = l.f.snap
	l.f.kv.durable = l.f.snap
}

func (f *zzFactory) Close() error { return nil }
func (f *zzFactory) NewKV(string, int64) (kvq.KV, error) {
	f.kv.closed = false
	return f.kv, nil
}
func (f *zzFactory) NewSnapshotLoader(string, int64) (kvq.SnapshotLoader, error) {
	// the real loader removes the existing database directory first
	f.kv.ents, f.kv.durable = nil, nil
	return &zzLoader{f: f}, nil
}
