package PKG

// Model of wal.Wal with the contract of server/wal/wal_impl.go (established for the real code by the
// C09/C10 harnesses): contiguous appends (ErrInvalidNextOffset otherwise), LastOffset() = last SYNCED
// offset, readers see only synced entries, AppendAsync leaves the entry unsynced until Sync,
// TruncateLog drops everything after the given offset and makes the rest synced, Clear empties.

import (
	"errors"
	"context"

	"github.com/oxia-db/oxia/proto"
	"github.com/oxia-db/oxia/server/wal"
	"github.com/oxia-db/oxia/server/wal/codec"
)

type zzWalEntry struct {
	term   int64
	offset int64
	value  []byte
	ts     uint64
}

type zzWal struct {
	name         string
	ents         []zzWalEntry // contiguous offsets first..lastAppended
	first        int64
	lastAppended int64
	lastSynced   int64
	closed       bool
	yieldOnSync  bool // AppendAndSync yields between append and sync (schedule point "wal.sync:<name>")
	appends      int
	rejected     int // appends refused by the contiguity rule
	failAppends  int // the next failAppends AppendAsync calls fail with an I/O error and store nothing
	frozen       bool // set by a harness once the node has answered NewTerm: the log must not grow any more
	racy         bool // Sync is a schedule point (concurrency harnesses)
	syncWindow   bool // Sync covers what was appended when it STARTED; appends can land while it is in flight (schedule point + native pause)
	yieldOnRead  bool // opening a forward reader is a schedule point ("wal.reader:<name>"): a round that reads the log can be overtaken
	openFwd      int  // forward readers currently open
	maxOpenFwd   int
}

var errZZWalIO = errors.New("zz: transient wal i/o error")

func zzNewWal(name string) *zzWal {
	return &zzWal{name: name, first: -1, lastAppended: -1, lastSynced: -1}
}

func (w *zzWal) Close() error { w.closed = true; return nil }
func (w *zzWal) Append(e *proto.LogEntry) error {
	if err := w.AppendAsync(e); err != nil {
		return err
	}
	return w.Sync(context.Background())
}
func (w *zzWal) AppendAsync(e *proto.LogEntry) error {
	if w.failAppends > 0 {
		w.failAppends--
		return errZZWalIO
	}
	if e.Offset < 0 {
		return wal.ErrInvalidNextOffset
	}
	if w.lastAppended != -1 && e.Offset != w.lastAppended+1 {
		w.rejected++
		return wal.ErrInvalidNextOffset
	}
	vAssert("log-does-not-grow-after-answering-new-term", !w.frozen)
	w.ents = append(w.ents, zzWalEntry{e.Term, e.Offset, e.Value, e.Timestamp})
	w.lastAppended = e.Offset
	if w.first == -1 {
		w.first = e.Offset
	}
	w.appends++
	return nil
}
func (w *zzWal) AppendAndSync(e *proto.LogEntry, cb func(error)) {
	vYield("wal.append:" + w.name)
	if err := w.AppendAsync(e); err != nil {
		cb(err)
		return
	}
	if w.yieldOnSync {
		vYield("wal.sync:" + w.name)
	}
	w.lastSynced = w.lastAppended
	cb(nil)
}
func (w *zzWal) Sync(context.Context) error {
	if w.racy {
		vYield("wal.Sync:" + w.name)
	}
	if w.syncWindow {
		snap := w.lastAppended
		vYield("wal.sync-in-flight:" + w.name)
		vSettle(3)
		if snap > w.lastSynced {
			w.lastSynced = snap
		}
		return nil
	}
	w.lastSynced = w.lastAppended
	return nil
}
func (w *zzWal) TruncateLog(o int64) (int64, error) {
	if o == -1 {
		_ = w.Clear()
		return -1, nil
	}
	if w.lastAppended == -1 {
		return -1, nil
	}
	if o < w.lastAppended {
		if o < w.first {
			_ = w.Clear()
			return -1, nil
		}
		w.ents = w.ents[:o-w.first+1]
		w.lastAppended = o
		w.lastSynced = o
		return o, nil
	}
	if o > w.lastAppended {
		return -1, codec.ErrOffsetOutOfBounds // readWriteSegment.Truncate rejects offsets beyond the end
	}
	// o == lastAppended: nothing to drop; everything becomes synced
	w.lastSynced = w.lastAppended
	return o, nil
}
func (w *zzWal) NewReader(after int64) (wal.Reader, error) {
	if after+1 < w.first {
		return nil, wal.ErrEntryNotFound
	}
	w.openFwd++
	if w.openFwd > w.maxOpenFwd {
		w.maxOpenFwd = w.openFwd
	}
	if w.yieldOnRead {
		vYield("wal.reader:" + w.name)
		vSettle(20) // natively: the round that opened the reader stays in this window for a while
	}
	return &zzWalReader{w: w, next: after + 1, dir: 1}, nil
}
func (w *zzWal) NewReverseReader() (wal.Reader, error) {
	return &zzWalReader{w: w, next: w.lastSynced, dir: -1}, nil
}
func (w *zzWal) LastOffset() int64  { return w.lastSynced }
func (w *zzWal) FirstOffset() int64 { return w.first }
func (w *zzWal) Clear() error {
	w.ents = nil
	w.first, w.lastAppended, w.lastSynced = -1, -1, -1
	return nil
}
func (w *zzWal) Delete() error { w.closed = true; return w.Clear() }

func (w *zzWal) at(o int64) *zzWalEntry { return &w.ents[o-w.first] }

type zzWalReader struct {
	w      *zzWal
	next   int64
	dir    int64
	closed bool
}

func (r *zzWalReader) Close() error {
	if !r.closed && r.dir > 0 {
		r.w.openFwd--
	}
	r.closed = true
	return nil
}
func (r *zzWalReader) HasNext() bool {
	if r.closed {
		return false
	}
	if r.dir > 0 {
		return r.next <= r.w.lastSynced
	}
	return r.w.first != -1 && r.next != r.w.first-1
}
func (r *zzWalReader) ReadNext() (*proto.LogEntry, error) {
	if r.closed {
		return nil, wal.ErrReaderClosed
	}
	if r.next < r.w.first || r.next > r.w.lastAppended {
		return nil, wal.ErrEntryNotFound
	}
	e := r.w.at(r.next)
	r.next += r.dir
	return &proto.LogEntry{Term: e.term, Offset: e.offset, Value: e.value, Timestamp: e.ts}, nil
}

type zzWalFactory struct{ w *zzWal }

func (f *zzWalFactory) Close() error { return nil }
func (f *zzWalFactory) NewWal(string, int64, wal.CommitOffsetProvider) (wal.Wal, error) {
	f.w.closed = false
	return f.w, nil
}
