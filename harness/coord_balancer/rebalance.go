package balancer

import (
	"context"
	"log/slog"
	"sync"
	"time"

	"github.com/emirpasic/gods/v2/sets/linkedhashset"

	"github.com/oxia-db/oxia/coordinator/model"
	p "github.com/oxia-db/oxia/coordinator/policies"
	"github.com/oxia-db/oxia/coordinator/resources"
	"github.com/oxia-db/oxia/coordinator/selectors/single"
)

var zzNames = []string{"a", "b", "c", "d", "e", "f"}

func zzSrv(i int) model.Server { return model.Server{Public: zzNames[i], Internal: zzNames[i]} }

type zzCfg struct {
	resources.ClusterConfigResource
	servers []int // indexes of the servers still in the cluster
	meta    map[string]model.ServerMetadata
	ns      *model.NamespaceConfig
}

func (c *zzCfg) Nodes() *linkedhashset.Set[string] {
	s := linkedhashset.New[string]()
	for _, i := range c.servers {
		s.Add(zzNames[i])
	}
	return s
}
func (c *zzCfg) NodesWithMetadata() (*linkedhashset.Set[string], map[string]model.ServerMetadata) {
	return c.Nodes(), c.meta
}
func (c *zzCfg) NamespaceConfig(string) (*model.NamespaceConfig, bool) { return c.ns, true }
func (c *zzCfg) Node(id string) (*model.Server, bool) {
	for _, i := range c.servers {
		if zzNames[i] == id {
			s := zzSrv(i)
			return &s, true
		}
	}
	return nil, false
}

type zzSt struct {
	resources.StatusResource
	st *model.ClusterStatus
}

func (s *zzSt) Load() *model.ClusterStatus { return s.st }

// ZZRebalance (C19): one round of the REAL load balancer (rebalanceEnsemble -> cleanDeletedNode /
// balanceHighestNode -> swapShard -> the real single-server selector) for a namespace with RF 3 and a
// strict zone anti-affinity rule. The shard's ensemble is {a(z1), b(z2), c(z3)}; the servers in `removed`
// (bit mask over a, b, c) have left the cluster, their metadata is still known; the spare servers d, e, f
// have symbolic zones. Every proposed swap is applied the way the shard controller applies it (replace From
// by To). After EVERY step: the target is a current server, was not already a member, the ensemble still has
// 3 distinct servers, and — as members leave one at a time — no two members share a zone.
func ZZRebalance(removed, spares int) {
	zones := []string{"z1", "z2", "z3"}
	meta := map[string]model.ServerMetadata{}
	for i := 0; i < 3; i++ {
		meta[zzNames[i]] = model.ServerMetadata{Labels: map[string]string{"zone": zones[i]}}
	}
	cfg := &zzCfg{meta: meta}
	for i := 0; i < 3; i++ {
		if removed&(1<<i) == 0 {
			cfg.servers = append(cfg.servers, i)
		}
	}
	zoneOf := map[string]string{"a": "z1", "b": "z2", "c": "z3"}
	for i := 3; i < 3+spares; i++ {
		z := zones[vChoice("spare-zone", 3)]
		meta[zzNames[i]] = model.ServerMetadata{Labels: map[string]string{"zone": z}}
		zoneOf[zzNames[i]] = z
		cfg.servers = append(cfg.servers, i)
	}
	cfg.ns = &model.NamespaceConfig{Name: "ns", InitialShardCount: 1, ReplicationFactor: 3,
		Policies: &p.Policies{AntiAffinities: []p.AntiAffinity{{Labels: []string{"zone"}, Mode: p.Strict}}}}
	ens := []model.Server{zzSrv(0), zzSrv(1), zzSrv(2)}
	status := &model.ClusterStatus{Namespaces: map[string]model.NamespaceStatus{"ns": {ReplicationFactor: 3,
		Shards: map[int64]model.ShardMetadata{0: {Status: model.ShardStatusSteadyState, Term: 1, Ensemble: append([]model.Server(nil), ens...),
			Int32HashRange: model.Int32HashRange{Min: 0, Max: 4294967295}}}}}}
	ctx, cancel := context.WithCancel(context.Background())
	defer cancel()
	r := &nodeBasedBalancer{WaitGroup: &sync.WaitGroup{}, Logger: slog.Default(), scheduleInterval: time.Second, quarantineTime: time.Minute,
		ctx: ctx, cancel: cancel, actionCh: make(chan Action, 16), statusResource: &zzSt{st: status}, configResource: cfg,
		selector: single.NewSelector(), loadRatioAlgorithm: single.DefaultShardsRank, triggerCh: make(chan struct{}, 1)}
	done := make(chan bool, 1)
	vGo("rebalance", func() { r.rebalanceEnsemble(); done <- true })
	swaps := 0
	finished := false
	for !finished {
		select {
		case act := <-r.actionCh:
			sw := act.(*SwapNodeAction)
			swaps++
			vAssert("at-most-one-swap-per-leaving-member", swaps <= 3)
			_, isServer := cfg.Node(sw.To.Internal)
			vAssert("target-is-a-current-server", isServer)
			at := -1
			for i := range ens {
				vAssert("target-not-already-a-member", ens[i].Internal != sw.To.Internal)
				if ens[i].Internal == sw.From.Internal {
					at = i
				}
			}
			vAssert("vacated-node-is-a-member", at >= 0)
			if at >= 0 {
				ens[at] = sw.To
			}
			for i := 0; i < 3; i++ {
				for j := 0; j < i; j++ {
					vAssert("ensemble-has-rf-distinct-servers", ens[i].Internal != ens[j].Internal)
					vAssert("strict-zone-anti-affinity-holds-after-every-swap", zoneOf[ens[i].Internal] != zoneOf[ens[j].Internal])
				}
			}
			act.Done()
		case <-done:
			finished = true
		}
	}
	for i := range ens {
		if removed&(1<<0) != 0 && ens[i].Internal == "a" || removed&(1<<1) != 0 && ens[i].Internal == "b" || removed&(1<<2) != 0 && ens[i].Internal == "c" {
			vReach("a-removed-member-could-not-be-replaced")
		}
	}
	vReach("end")
}

// ZZRebalancePlain (C19): balancer rounds for a namespace WITHOUT an anti-affinity policy (nothing but bookkeeping keeps
// a server from being picked twice) and with unevenly loaded spares: shard 0 lives on {a, b, c}; `extra` further
// shards live on {c, e, f}, so that the spare server d is the least loaded candidate by far. The servers in
// `removed` (bit mask over a, b) have left the cluster. A round computes ALL its swaps from one snapshot of the
// status, so a later proposal for a shard can be stale with respect to an earlier one of the same round. Every
// proposal goes through what the shard controller does with it — swapNode refuses a request whose source is not a
// member or whose target already is one (that contract is checked on the real code by ZZSwapStale), otherwise it
// replaces the source by the target. After every step every ensemble has 3 DISTINCT servers; after a second
// round on the updated status no departed server is left in any ensemble (a refused proposal is made good by the
// next round, not lost).
func ZZRebalancePlain(removed, extra int) {
	meta := map[string]model.ServerMetadata{}
	cfg := &zzCfg{meta: meta}
	for i := 0; i < 6; i++ {
		meta[zzNames[i]] = model.ServerMetadata{}
		if i >= 2 || removed&(1<<i) == 0 {
			cfg.servers = append(cfg.servers, i)
		}
	}
	cfg.ns = &model.NamespaceConfig{Name: "ns", InitialShardCount: 1, ReplicationFactor: 3}
	ens := map[int64][]model.Server{0: {zzSrv(0), zzSrv(1), zzSrv(2)}}
	for i := 1; i <= extra; i++ {
		ens[int64(i)] = []model.Server{zzSrv(2), zzSrv(4), zzSrv(5)}
	}
	mkStatus := func() *model.ClusterStatus {
		shards := map[int64]model.ShardMetadata{}
		for id, e := range ens {
			shards[id] = model.ShardMetadata{Status: model.ShardStatusSteadyState, Term: 1, Ensemble: append([]model.Server(nil), e...),
				Int32HashRange: model.Int32HashRange{Min: uint32(1000 * id), Max: uint32(1000*id + 999)}}
		}
		return &model.ClusterStatus{Namespaces: map[string]model.NamespaceStatus{"ns": {ReplicationFactor: 3, Shards: shards}}}
	}
	refused := 0
	for round := 0; round < 2; round++ {
		ctx, cancel := context.WithCancel(context.Background())
		r := &nodeBasedBalancer{WaitGroup: &sync.WaitGroup{}, Logger: slog.Default(), scheduleInterval: time.Millisecond, quarantineTime: time.Minute,
			ctx: ctx, cancel: cancel, actionCh: make(chan Action, 16), statusResource: &zzSt{st: mkStatus()}, configResource: cfg,
			selector: single.NewSelector(), loadRatioAlgorithm: single.DefaultShardsRank, triggerCh: make(chan struct{}, 1)}
		done := make(chan bool, 1)
		vGo("rebalance", func() { r.rebalanceEnsemble(); done <- true })
		swaps := 0
		finished := false
		apply := func(act Action) {
			sw := act.(*SwapNodeAction)
			swaps++
			vAssert("round-terminates", swaps <= 12)
			_, isServer := cfg.Node(sw.To.Internal)
			vAssert("target-is-a-current-server", isServer)
			e := ens[sw.Shard]
			at, dup := -1, false
			for i := range e {
				if e[i].Internal == sw.To.Internal {
					dup = true
				}
				if e[i].Internal == sw.From.Internal {
					at = i
				}
			}
			if at < 0 || dup {
				refused++ // shardController.swapNode refuses it (ZZSwapStale); the ensemble stays as it is
			} else {
				e[at] = sw.To
			}
			for i := 0; i < 3; i++ {
				for j := 0; j < i; j++ {
					vAssert("ensemble-has-rf-distinct-servers", e[i].Internal != e[j].Internal)
				}
			}
			vSettle(5) // natively: applying a swap (election + catch-up) takes longer than the schedule interval
			act.Done()
		}
		for !finished {
			select {
			case act := <-r.actionCh:
				apply(act)
			case <-done:
				// The analysis of ONE round (here and in ZZRebalance) is only representative if rounds are serialised
				// with the application of their swaps: the next round must read a status that contains them.
				vAssert("a-round-ends-only-after-all-its-swaps-were-applied", len(r.actionCh) == 0)
				finished = true
			}
		}
		// the coordinator's worker applies whatever the round has proposed, also when the round itself is over
		for pending := true; pending; {
			select {
			case act := <-r.actionCh:
				apply(act)
			default:
				pending = false
			}
		}
		cancel()
	}
	if refused > 0 {
		vReach("a-stale-proposal-was-refused")
	}
	for _, e := range ens {
		for _, m := range e {
			_, isServer := cfg.Node(m.Internal)
			vAssert("no-departed-server-left-after-the-next-round", isServer)
		}
	}
	vReach("end")
}
