package wal

import (
	"context"
	"time"

	pb "google.golang.org/protobuf/proto"

	"github.com/oxia-db/oxia/proto"
)

type zzCommit struct{ off int64 }

func (c *zzCommit) CommitOffset() int64 { return c.off }

type zzWClock struct{ ms int64 }

func (c *zzWClock) Now() time.Time { return time.UnixMilli(c.ms) }

type zzRef struct {
	off int64
	val byte
	ts  uint64
}

func zzEntry(o int64, ts uint64) *proto.LogEntry {
	return &proto.LogEntry{Term: 1, Offset: o, Value: []byte{byte(o + 1)}, Timestamp: ts}
}

func zzOpenWal(dir string, cp *zzCommit, clock *zzWClock) *wal {
	sample, _ := pb.Marshal(zzEntry(1, 1000))
	opts := &FactoryOptions{BaseWalDir: dir, Retention: time.Second, SegmentSize: int32(zzSegCap*(12+len(sample)) + 6), SyncData: false}
	w, err := newWal("zz", 1, opts, cp, clock, time.Hour)
	vAssert("open-ok", err == nil)
	return w.(*wal)
}

// zzCheckWal: the WAL holds exactly the reference list: first/last offsets, every entry readable
// forwards and backwards with its offset, payload and timestamp, and the next append is accepted
// exactly at last+1.
func zzCheckWal(w *wal, ref []zzRef, first int64, tag string) {
	if len(ref) == 0 {
		vAssert(tag+":empty-last", w.LastOffset() == InvalidOffset)
		r, _ := w.NewReverseReader()
		vAssert(tag+":empty-reverse", !r.HasNext())
		return
	}
	last := ref[len(ref)-1].off
	vAssert(tag+":last-offset", w.LastOffset() == last)
	vAssert(tag+":first-offset", w.FirstOffset() == first)
	// forward from the first retained offset
	start := 0
	for start < len(ref) && ref[start].off < first {
		start++
	}
	r, err := w.NewReader(first - 1)
	vAssert(tag+":reader-ok", err == nil)
	if err != nil {
		return
	}
	for i := start; i < len(ref); i++ {
		vAssert(tag+":forward-has-next", r.HasNext())
		e, err := r.ReadNext()
		if err != nil {
			vReach("read-error: " + err.Error())
		}
		vAssert(tag+":forward-read-ok", err == nil)
		if err != nil {
			return
		}
		vAssert(tag+":forward-entry", e.Offset == ref[i].off && e.Value[0] == ref[i].val && e.Timestamp == ref[i].ts)
	}
	vAssert(tag+":forward-ends", !r.HasNext())
	rr, _ := w.NewReverseReader()
	for i := len(ref) - 1; i >= start; i-- {
		vAssert(tag+":backward-has-next", rr.HasNext())
		e, err := rr.ReadNext()
		vAssert(tag+":backward-read-ok", err == nil)
		if err != nil {
			return
		}
		vAssert(tag+":backward-entry", e.Offset == ref[i].off && e.Value[0] == ref[i].val)
	}
	vAssert(tag+":backward-ends", !rr.HasNext())
	vAssert(tag+":gap-append-rejected", w.AppendAsync(zzEntry(last+2, 1)) != nil)
}

// ZZWalOps (C09): the real wal_impl.go (append, sync, roll-over, TruncateLog, Clear, trim, close and
// reopen through recoverWal, forward and reverse readers) driven by up to four operations from
// {1 append, 2 append x3, 3 truncate to a symbolic offset, 4 clear, 5 trim to a symbolic offset,
// 6 close + reopen}, compared with a list model after every step. Segments hold 2 entries, so
// roll-overs, truncations and trims fall before, on and after segment boundaries.
func ZZWalOps(op1, op2, op3, op4 int) {
	zzDisk = map[int64]*zzSegData{}
	dir := vTempDir()
	cp := &zzCommit{off: 1 << 40}
	clock := &zzWClock{}
	w := zzOpenWal(dir, cp, clock)
	var ref []zzRef
	first := int64(-1)
	next := int64(0)
	for step, op := range []int{op1, op2, op3, op4} {
		tag := string(rune('1' + step))
		switch op {
		case 1, 2:
			n := 1
			if op == 2 {
				n = 3
			}
			for i := 0; i < n; i++ {
				e := zzEntry(next, uint64(1000+next))
				vAssert(tag+":append-ok", w.Append(e) == nil)
				ref = append(ref, zzRef{next, byte(next + 1), uint64(1000 + next)})
				if first == -1 {
					first = next
				}
				next++
			}
		case 3:
			if len(ref) == 0 {
				continue
			}
			lo := ref[0].off
			if first > lo {
				lo = first
			}
			t := lo + int64(vChoice("truncate-to", int(next-lo)))
			got, err := w.TruncateLog(t)
			vAssert(tag+":truncate-ok", err == nil && got == t)
			for len(ref) > 0 && ref[len(ref)-1].off > t {
				ref = ref[:len(ref)-1]
			}
			next = t + 1
		case 4:
			vAssert(tag+":clear-ok", w.Clear() == nil)
			ref, first, next = nil, -1, 0
		case 5:
			if len(ref) == 0 {
				continue
			}
			t := first + int64(vChoice("trim-to", int(next-first)))
			vAssert(tag+":trim-ok", w.trim(t) == nil)
			if t > first {
				first = t
			}
		case 6:
			vAssert(tag+":close-ok", w.Close() == nil)
			w = zzOpenWal(dir, cp, clock)
			// after a reopen the first offset is the base of the oldest surviving segment
			if len(ref) > 0 {
				first = w.FirstOffset()
				vAssert(tag+":reopen-first-not-after-trim-point", first <= ref[len(ref)-1].off)
			}
		default:
			continue
		}
		zzCheckWal(w, ref, first, tag)
		// undo the probe append of zzCheckWal if it was (wrongly) accepted: nothing to do, it must fail
	}
	vReach("end")
}

// ZZWalTrimmer (C09): the real trimmer.doTrim + binarySearch + wal.trim + TrimSegments over n entries
// with symbolic non-decreasing timestamps, symbolic clock and commit offset: the new first offset never
// passes the commit offset, every dropped entry is older than the cut-off, the first offset only moves
// forward, and everything from the first offset on is still readable.
func ZZWalTrimmer(n int) {
	zzDisk = map[int64]*zzSegData{}
	cp := &zzCommit{}
	clock := &zzWClock{}
	w := zzOpenWal(vTempDir(), cp, clock)
	ts := make([]uint64, n)
	prev := int64(0)
	var ref []zzRef
	for i := 0; i < n; i++ {
		t := vInt64("ts")
		vAssume(t >= prev)
		vAssume(t < 1<<40)
		prev = t
		ts[i] = uint64(t)
		vAssert("append-ok", w.Append(zzEntry(int64(i), ts[i])) == nil)
		ref = append(ref, zzRef{int64(i), byte(i + 1), ts[i]})
	}
	clock.ms = vInt64("now")
	vAssume(clock.ms >= 0)
	vAssume(clock.ms < 1<<40)
	cp.off = int64(vChoice("commit", n+1)) - 1
	tr := w.trimmer.(*trimmer)
	err := tr.doTrim()
	vAssert("trim-ok", err == nil)
	first := w.FirstOffset()
	vObserve("first", first)
	vAssert("first-offset-monotone", first >= 0)
	if cp.off >= 0 {
		vAssert("never-trims-above-commit-offset", first <= cp.off)
	} else {
		vAssert("nothing-committed-nothing-trimmed", first == 0)
	}
	cutoff := clock.ms - 1000
	for i := int64(0); i < first; i++ {
		vAssert("dropped-entries-are-older-than-retention", int64(ts[i]) <= cutoff)
	}
	zzCheckWal(w, ref, first, "post")
	_ = context.Background()
	vReach("end")
}

// ZZWalSyncPipeline (C08/C09): SyncData=true. A single writer pipelines n AppendAndSync calls while the
// real runSync goroutine batches the sync requests; every lock acquisition of the WAL is a preemption
// point. A sync callback may only report success when the WAL's synced offset already covers the
// entry it belongs to ("stored on the leader" is what the commit rule counts).
func ZZWalSyncPipeline(n, reps int) {
	for rep := 0; rep < reps; rep++ {
		zzWalSyncPipelineOnce(n)
	}
	vReach("end")
}

func zzWalSyncPipelineOnce(n int) {
	zzDisk = map[int64]*zzSegData{}
	sample, _ := pb.Marshal(zzEntry(1, 1000))
	opts := &FactoryOptions{BaseWalDir: vTempDir(), Retention: time.Second, SegmentSize: int32((n+4)*(12+len(sample)+4) + 6), SyncData: true}
	zzSegCap = n + 4
	wi, err := newWal("zz", 1, opts, &zzCommit{off: 1 << 40}, &zzWClock{}, time.Hour)
	vAssert("open-ok", err == nil)
	w := wi.(*wal)
	// observe what each flush really covers (the segment's content when the flush STARTED); the flush is a
	// schedule point, so appends can land while it is in flight
	spy := &zzFlushSpy{ReadWriteSegment: w.currentSegment, covered: -1}
	w.currentSegment = spy
	done := make(chan int64, n+1)
	for i := 0; i < n; i++ {
		off := int64(i)
		w.AppendAndSync(zzEntry(off, 1000), func(err error) {
			if err != nil {
				vReach("sync-error: " + err.Error())
			}
			vAssert("sync-callback-ok", err == nil)
			vAssert("synced-offset-covers-the-acknowledged-entry", w.LastOffset() >= off)
			vAssert("acknowledged-entry-was-covered-by-a-completed-flush", spy.covered >= off)
			done <- off
		})
		vAssert("readers-never-see-more-than-what-was-flushed", w.LastOffset() <= spy.covered)
	}
	for i := 0; i < n; i++ {
		<-done
	}
	vAssert("all-synced", w.LastOffset() == int64(n-1))
	vAssert("synced-offset-never-ahead-of-a-completed-flush", w.LastOffset() <= spy.covered)
	zzSegCap = 2
	_ = w.Close()
}

// ZZWalManySegments (C09): n entries, ONE per segment, so that the log spans n-1 read-only segments —
// more than the read-only group keeps open (it evicts the lowest-numbered cached segments beyond 5).
// After a forward scan has warmed the cache with the highest segments, a reverse scan, a second forward
// scan, a reader started at a symbolic old offset and a reopen must still return every entry: a segment
// handed to a reader is never a closed one, whatever the order in which segments are visited.
func ZZWalManySegments(n int) {
	zzDisk = map[int64]*zzSegData{}
	zzSegCap = 1
	dir := vTempDir()
	cp := &zzCommit{off: 1 << 40}
	clock := &zzWClock{}
	w := zzOpenWal(dir, cp, clock)
	var ref []zzRef
	for i := int64(0); i < int64(n); i++ {
		vAssert("append-ok", w.Append(zzEntry(i, uint64(1000+i))) == nil)
		ref = append(ref, zzRef{i, byte(i + 1), uint64(1000 + i)})
	}
	zzCheckWal(w, ref, 0, "first-pass")   // forward, then backward
	zzCheckWal(w, ref, 0, "second-pass")  // forward again with the cache holding the low segments, then backward
	from := int64(vChoice("reader-from", n)) // a new reader at an arbitrary old offset
	r, err := w.NewReader(from - 1)
	vAssert("reader-ok", err == nil)
	if err == nil {
		for i := from; i < int64(n); i++ {
			vAssert("old-offset-reader-has-next", r.HasNext())
			e, rerr := r.ReadNext()
			vAssert("old-offset-reader-reads", rerr == nil && e != nil && e.Offset == i && e.Value[0] == byte(i+1))
			if rerr != nil {
				break
			}
		}
		_ = r.Close()
	}
	vAssert("close-ok", w.Close() == nil)
	w = zzOpenWal(dir, cp, clock)
	zzCheckWal(w, ref, 0, "after-reopen")
	_ = w.Close()
	zzSegCap = 2
	vReach("end")
}

// ZZWalReaderTail (C09): readers at the moving end of the log. A forward reader reads the n stored entries,
// asks once more at the tail (an error, not an entry), then the WAL grows by k entries: the SAME reader must
// deliver exactly those entries next — a failed read never consumes an offset. A reverse reader opened after
// the growth returns everything, newest first.
func ZZWalReaderTail(n, k int) {
	zzDisk = map[int64]*zzSegData{}
	dir := vTempDir()
	w := zzOpenWal(dir, &zzCommit{off: 1 << 40}, &zzWClock{})
	for i := int64(0); i < int64(n); i++ {
		vAssert("append-ok", w.Append(zzEntry(i, uint64(1000+i))) == nil)
	}
	r, err := w.NewReader(-1)
	vAssert("reader-ok", err == nil)
	for i := int64(0); i < int64(n); i++ {
		vAssert("has-next", r.HasNext())
		e, rerr := r.ReadNext()
		vAssert("read-in-order", rerr == nil && e.Offset == i)
	}
	vAssert("at-the-tail", !r.HasNext())
	_, terr := r.ReadNext()
	vAssert("reading-past-the-end-is-an-error", terr != nil)
	for i := int64(n); i < int64(n+k); i++ {
		vAssert("append-ok", w.Append(zzEntry(i, uint64(1000+i))) == nil)
	}
	for i := int64(n); i < int64(n+k); i++ {
		vAssert("reader-sees-the-growth", r.HasNext())
		e, rerr := r.ReadNext()
		vAssert("failed-read-did-not-consume-an-offset", rerr == nil && e != nil && e.Offset == i && e.Value[0] == byte(i+1))
	}
	vAssert("tail-again", !r.HasNext())
	_ = r.Close()
	rr, err := w.NewReverseReader()
	vAssert("reverse-reader-ok", err == nil)
	for i := int64(n+k) - 1; i >= 0; i-- {
		vAssert("reverse-has-next", rr.HasNext())
		e, rerr := rr.ReadNext()
		vAssert("reverse-in-order", rerr == nil && e.Offset == i)
	}
	vAssert("reverse-ends", !rr.HasNext())
	_ = rr.Close()
	_ = w.Close()
	vReach("end")
}

type zzFlushSpy struct {
	ReadWriteSegment
	covered int64
}

func (f *zzFlushSpy) Flush() error {
	c := f.ReadWriteSegment.LastOffset()
	vYield("wal.flush")
	vSettle(3) // natively: the flush takes a moment, appends land meanwhile
	err := f.ReadWriteSegment.Flush()
	if err == nil && c > f.covered {
		f.covered = c
	}
	return err
}

// ZZWalAsyncRoll (C09): batched appends across segment roll-overs — the follower's pattern: `batch` AppendAsync
// calls, then one Sync, repeated — with segments that hold 2 entries, so that a roll-over happens while entries
// are appended but not yet synced. Every append at last+1 is accepted, nothing is lost or duplicated at a roll-over,
// the log reads back contiguous in both directions, also after a reopen.
func ZZWalAsyncRoll(n, batch int) {
	zzDisk = map[int64]*zzSegData{}
	zzSegCap = 2
	dir := vTempDir()
	cp := &zzCommit{off: 1 << 40}
	clock := &zzWClock{}
	w := zzOpenWal(dir, cp, clock)
	var ref []zzRef
	for i := int64(0); i < int64(n); i++ {
		vAssert("append-at-last+1-accepted", w.AppendAsync(zzEntry(i, uint64(1000+i))) == nil)
		ref = append(ref, zzRef{i, byte(i + 1), uint64(1000 + i)})
		if (int(i)+1)%batch == 0 {
			vAssert("sync-ok", w.Sync(context.Background()) == nil)
			vAssert("synced-up-to-the-last-append", w.LastOffset() == i)
		}
	}
	vAssert("final-sync-ok", w.Sync(context.Background()) == nil)
	zzCheckWal(w, ref, 0, "after-batched-appends")
	vAssert("close-ok", w.Close() == nil)
	w = zzOpenWal(dir, cp, clock)
	zzCheckWal(w, ref, 0, "after-reopen")
	vAssert("next-append-accepted", w.Append(zzEntry(int64(n), uint64(1000+n))) == nil)
	_ = w.Close()
	vReach("end")
}
