package wal

import (
	"os"
	"errors"
	"fmt"
	"time"

	"github.com/oxia-db/oxia/server/wal/codec"
)

// ---- model "disk" and segments (engine side: the leaf constructors of the WAL are replaced by these;
// the native replay uses the real files). A segment holds at most zzSegCap entries — the real
// capacity test is a byte formula, checked on the real readWriteSegment by ZZSegment.

type zzSegData struct {
	base int64
	ents [][]byte
}

var zzDisk map[int64]*zzSegData
var zzSegCap = 2

type zzRW struct {
	d      *zzSegData
	closed bool // this handle was closed (the real segment is unmapped)
}

func zzNewRW(_ string, baseOffset int64, _ uint32, _ uint32, _ CommitOffsetProvider) (ReadWriteSegment, error) {
	d, ok := zzDisk[baseOffset]
	if !ok {
		d = &zzSegData{base: baseOffset}
		zzDisk[baseOffset] = d
	}
	return &zzRW{d: d}, nil
}
func (s *zzRW) Close() error             { s.closed = true; return nil }
func (s *zzRW) BaseOffset() int64        { return s.d.base }
func (s *zzRW) LastOffset() int64        { return s.d.base + int64(len(s.d.ents)) - 1 }
func (s *zzRW) LastCrc() uint32          { return 0 }
func (s *zzRW) OpenTimestamp() time.Time { return time.Now() }
func (s *zzRW) Flush() error             { return nil }
func (s *zzRW) HasSpace(int) bool        { return len(s.d.ents) < zzSegCap }
func (s *zzRW) Delete() error            { delete(zzDisk, s.d.base); return nil }
func (s *zzRW) Read(o int64) ([]byte, error) {
	if s.closed {
		return nil, codec.ErrOffsetOutOfBounds // reading an unmapped segment
	}
	if o < s.d.base || o > s.LastOffset() {
		return nil, codec.ErrOffsetOutOfBounds
	}
	return s.d.ents[o-s.d.base], nil
}
func (s *zzRW) Append(o int64, data []byte) error {
	if len(data) == 0 {
		return codec.ErrEmptyPayload
	}
	if len(s.d.ents) >= zzSegCap {
		return ErrSegmentFull
	}
	if o != s.LastOffset()+1 {
		return ErrInvalidNextOffset
	}
	s.d.ents = append(s.d.ents, data)
	return nil
}
func (s *zzRW) Truncate(o int64) error {
	if o < s.d.base || o > s.LastOffset() {
		return codec.ErrOffsetOutOfBounds
	}
	s.d.ents = s.d.ents[:o-s.d.base+1]
	return nil
}

func zzNewRO(_ string, baseOffset int64) (ReadOnlySegment, error) {
	d, ok := zzDisk[baseOffset]
	if !ok {
		return nil, errors.New("zz: no such segment file")
	}
	return &zzRW{d: d}, nil
}

func zzListAllSegments(string) ([]int64, error) {
	var out []int64
	for b := range zzDisk {
		i := len(out)
		out = append(out, b)
		for i > 0 && out[i-1] > b {
			out[i] = out[i-1]
			i--
		}
		out[i] = b
	}
	return out, nil
}

func zzNewSegmentConfig(_ string, baseOffset int64) (*segmentConfig, error) {
	_, ok := zzDisk[baseOffset]
	return &segmentConfig{codec: codec.SupportedCodecs[0], segmentExists: ok, txnPath: fmt.Sprintf("txn-%d", baseOffset), idxPath: fmt.Sprintf("idx-%d", baseOffset), baseOffset: baseOffset}, nil
}

func zzRemoveFileIfExists(path string) error {
	var b int64
	if _, err := fmt.Sscanf(path, "txn-%d", &b); err == nil {
		delete(zzDisk, b)
	}
	return nil
}

func zzRemoveAll(string) error {
	zzDisk = map[int64]*zzSegData{}
	return nil
}

// zzReadDir replaces os.ReadDir for the WAL directory (engine side): one "<base>.txnx" entry per model segment,
// sorted by FILE NAME as os.ReadDir documents — i.e. lexicographically, "10.txnx" before "2.txnx".
type zzDirEntry struct{ name string }

func (e zzDirEntry) Name() string               { return e.name }
func (e zzDirEntry) IsDir() bool                { return false }
func (e zzDirEntry) Type() os.FileMode          { return 0 }
func (e zzDirEntry) Info() (os.FileInfo, error) { return nil, errors.New("zz: no file info") }

func zzReadDir(string) ([]os.DirEntry, error) {
	var names []string
	for b := range zzDisk {
		nm := fmt.Sprintf("%d.txnx", b)
		i := len(names)
		names = append(names, nm)
		for i > 0 && names[i-1] > nm {
			names[i] = names[i-1]
			i--
		}
		names[i] = nm
	}
	var out []os.DirEntry
	for _, nm := range names {
		out = append(out, zzDirEntry{nm})
	}
	return out, nil
}
