package wal

import (
	"errors"
	"io"
	"os"

	"github.com/edsrzf/mmap-go"

	"github.com/oxia-db/oxia/server/util/crc"
	"github.com/oxia-db/oxia/server/wal/codec"
)

// ---- a two-file model file system for the read-only segment's open path (engine side: os.OpenFile,
// io.ReadAll, (*os.File).Close / Write and mmap.MapRegion are replaced by these; newSegmentConfig too,
// because it stats the directory).

var zzFiles map[string][]byte
var zzHandles = map[*os.File]string{}

func zzOpenFile(name string, flag int, _ os.FileMode) (*os.File, error) {
	if _, ok := zzFiles[name]; !ok {
		if flag&os.O_CREATE == 0 {
			return nil, os.ErrNotExist
		}
		zzFiles[name] = nil
	}
	f := new(os.File)
	zzHandles[f] = name
	return f, nil
}
func zzReadAll(r io.Reader) ([]byte, error) {
	f := r.(*os.File)
	return append([]byte(nil), zzFiles[zzHandles[f]]...), nil
}
func zzFileClose(*os.File) error { return nil }
func zzFileWrite(f *os.File, b []byte) (int, error) {
	zzFiles[zzHandles[f]] = append([]byte(nil), b...)
	return len(b), nil
}
func zzMapRegion(f *os.File, _ int, _ int, _ int, _ int64) (mmap.MMap, error) {
	return mmap.MMap(zzFiles[zzHandles[f]]), nil
}
func zzROSegmentConfig(basePath string, baseOffset int64) (*segmentConfig, error) {
	return &segmentConfig{codec: codec.SupportedCodecs[0], segmentExists: true, txnPath: segmentPath(basePath, baseOffset) + ".txnx",
		idxPath: segmentPath(basePath, baseOffset) + ".idxx", baseOffset: baseOffset}, nil
}

// natively real files; in the symbolic run replaced by the model versions below
func zzPutFile(path string, b []byte) { _ = os.WriteFile(path, b, 0o644) }
func zzGetFile(path string) []byte    { b, _ := os.ReadFile(path); return b }
func zzPutFileModel(path string, b []byte) {
	if zzFiles == nil {
		zzFiles = map[string][]byte{}
	}
	zzFiles[path] = append([]byte(nil), b...)
}
func zzGetFileModel(path string) []byte { return zzFiles[path] }

var errZZ = errors.New("zz")

// ZZReadOnlyOpen (C10): the REAL newReadOnlySegment (open, map, ReadIndex, rebuild through RecoverIndex +
// WriteIndex, last-CRC recovery, Read) on a segment whose .txnx file holds n intact records written by the
// real readWriteSegment / v2 codec, and whose .idxx file is what a crash or a corruption can leave:
// kind 0 = the first `cut` bytes of the file the real WriteIndex produced (cut = its full length: intact;
// 0: created but never written), kind 1 = the intact file with one byte at position `cut` replaced by a
// symbolic value. The open must not panic; the index file is redundant, so the segment must open — directly
// or after a rebuild — with last offset base+n-1 and every record bit-identical; it must never serve a
// different last offset or different bytes.
func ZZReadOnlyOpen(n, kind, cut int) {
	base := int64(7)
	size := 64
	rw := &readWriteSegment{
		c:             &segmentConfig{codec: codec.SupportedCodecs[0], baseOffset: base},
		txnMappedFile: make([]byte, size),
		segmentSize:   uint32(size),
		lastOffset:    base - 1,
		writingIdx:    make([]byte, 0, 64),
	}
	var stored [][]byte
	for i := 0; i < n; i++ {
		p := vBytes("p", 2)
		vAssert("append-ok", rw.Append(base+int64(i), p) == nil)
		stored = append(stored, p)
	}
	zzFiles = map[string][]byte{}
	dir := vTempDir()
	txnPath, idxPath := segmentPath(dir, base)+".txnx", segmentPath(dir, base)+".idxx"
	zzPutFile(txnPath, rw.txnMappedFile)
	vAssert("index-written", codec.SupportedCodecs[0].WriteIndex(idxPath, rw.writingIdx) == nil)
	full := zzGetFile(idxPath)
	vAssert("index-file-length", len(full) == 4+4*n)
	vAssume(cut <= len(full))
	if kind == 0 {
		zzPutFile(idxPath, full[:cut])
		if cut >= 4 && cut < len(full) {
			// a CRC-32 over a truncated body does not match the stored one (assumption: the checksum detects truncation)
			vAssume(crc.Checksum(0).Update(full[4:cut]).Value() != crc.Checksum(0).Update(full[4:]).Value())
		}
	} else {
		vAssume(cut < len(full))
		dam := append([]byte(nil), full...)
		dam[cut] = vByte("damage")
		vAssume(dam[cut] != full[cut])
		if cut >= 4 {
			// CRC-32 detects every error burst of up to 32 bits (assumption stated for the uninterpreted checksum)
			vAssume(crc.Checksum(0).Update(dam[4:]).Value() != crc.Checksum(0).Update(full[4:]).Value())
		}
		zzPutFile(idxPath, dam)
	}
	ro, err := newReadOnlySegment(dir, base)
	vAssert("redundant-index-damage-does-not-lose-the-segment", err == nil)
	if err != nil {
		vReach("open-failed")
		vReach("end")
		return
	}
	vAssert("last-offset", ro.LastOffset() == base+int64(n)-1)
	for i := 0; i < n; i++ {
		got, rerr := ro.Read(base + int64(i))
		vAssert("record-readable", rerr == nil && len(got) == 2)
		if rerr == nil && len(got) == 2 {
			vAssert("record-bit-identical", got[0] == stored[i][0] && got[1] == stored[i][1])
		}
	}
	_, rerr := ro.Read(base + int64(n))
	vAssert("no-fabricated-entry", rerr != nil)
	vReach("end")
}

func zzStat(string) (os.FileInfo, error)        { return nil, nil }
func zzMkdirAll(string, os.FileMode) error      { return nil }
func zzInitFileWithZeroes(f *os.File, size uint32) error {
	zzFiles[zzHandles[f]] = make([]byte, size)
	return nil
}
func zzRWSegmentConfig(basePath string, baseOffset int64) (*segmentConfig, error) {
	p := segmentPath(basePath, baseOffset) + ".txnx"
	_, exists := zzFiles[p]
	return &segmentConfig{codec: codec.SupportedCodecs[0], segmentExists: exists, txnPath: p,
		idxPath: segmentPath(basePath, baseOffset) + ".idxx", baseOffset: baseOffset}, nil
}

// ZZReadWriteReopen (C10 / C09): the REAL newReadWriteSegment (open or create, map, RecoverIndex with the
// commit offset, last CRC / write cursor recovery) across two process lives. Life 1 creates the current
// segment and appends n records (symbolic bytes); the process dies (nothing else is written). Life 2 reopens
// the segment with a symbolic commit offset, must find exactly the n records, appends one more; life 3
// reopens again and must find n+1 records, bit-identical — the CRC chain written after a reopen continues
// the one recovered from the file.
func ZZReadWriteReopen(n int) {
	zzFiles = map[string][]byte{}
	zzHandles = map[*os.File]string{}
	dir := vTempDir()
	base := int64(3)
	cp := &zzCommit{off: base - 1 + int64(vChoice("committed", n+1))}
	s1, err := newReadWriteSegment(dir, base, 128, 0, cp)
	vAssert("create-ok", err == nil)
	var stored [][]byte
	for i := 0; i < n; i++ {
		p := vBytes("p", 2)
		vAssert("append-ok", s1.Append(base+int64(i), p) == nil)
		stored = append(stored, p)
	}
	_ = s1.Flush()
	// life 2
	s2, err := newReadWriteSegment(dir, base, 128, 0, cp)
	vAssert("reopen-ok", err == nil)
	if err != nil {
		return
	}
	vAssert("reopen-finds-every-record", s2.LastOffset() == base+int64(n)-1)
	extra := []byte{0xAB, 0xCD}
	vAssert("append-continues-at-the-next-offset", s2.Append(base+int64(n), extra) == nil)
	stored = append(stored, extra)
	_ = s2.Flush()
	// life 3
	cp.off = base + int64(n)
	s3, err := newReadWriteSegment(dir, base, 128, 0, cp)
	vAssert("second-reopen-ok", err == nil)
	if err != nil {
		return
	}
	vAssert("second-reopen-finds-every-record", s3.LastOffset() == base+int64(n))
	for i := range stored {
		got, rerr := s3.Read(base + int64(i))
		vAssert("record-readable", rerr == nil && len(got) == 2)
		if rerr == nil && len(got) == 2 {
			vAssert("record-bit-identical", got[0] == stored[i][0] && got[1] == stored[i][1])
		}
	}
	vReach("end")
}

// ZZReadWriteDamage (C10): the real newReadWriteSegment reopening a segment with a NON-ZERO base offset whose
// record d (symbolic) had one payload byte damaged on disk, with a symbolic absolute commit offset. Damage at
// or below the commit offset is reported as an error; damage above it is discarded together with what
// follows (the log ends at d-1) and never costs a committed entry — unless the damaged record still carries a
// matching checksum (collision: the uninterpreted CRC allows it; then nothing can be said).
func ZZReadWriteDamage(n int) {
	zzFiles = map[string][]byte{}
	zzHandles = map[*os.File]string{}
	dir := vTempDir()
	base := int64(5)
	s1, err := newReadWriteSegment(dir, base, 128, 0, &zzCommit{off: base - 1})
	vAssert("create-ok", err == nil)
	for i := 0; i < n; i++ {
		vAssert("append-ok", s1.Append(base+int64(i), vBytes("p", 2)) == nil)
	}
	_ = s1.Flush()
	path := segmentPath(dir, base) + ".txnx"
	content := zzGetFile(path)
	d := vChoice("damaged-record", n)
	pos := 14*d + 12 // first payload byte of record d (12-byte header + 2-byte payload per record)
	dam := append([]byte(nil), content...)
	dam[pos] = vByte("damage")
	vAssume(dam[pos] != content[pos])
	zzPutFile(path, dam)
	commit := base - 1 + int64(vChoice("committed", n+1)) // absolute: base-1 .. base+n-1
	s2, err := newReadWriteSegment(dir, base, 128, 0, &zzCommit{off: commit})
	if err != nil {
		vReach("reported")
		vAssert("only-damage-to-a-committed-entry-is-an-error", base+int64(d) <= commit)
	} else if s2.LastOffset() >= base+int64(d) {
		vReach("collision-accepted")
	} else {
		vReach("discarded")
		vAssert("damage-to-a-committed-entry-is-reported-not-dropped", base+int64(d) > commit)
		vAssert("log-ends-right-before-the-damage", s2.LastOffset() == base+int64(d)-1)
	}
	vReach("end")
}
