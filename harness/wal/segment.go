package wal

import (
	"github.com/oxia-db/oxia/server/wal/codec"
)

func zzPayload(name string, l int) []byte { return vBytes(name, l) }

// ZZSegment (C09/C10): the REAL readWriteSegment (Append / Read / HasSpace / Truncate / LastOffset) with
// the real v2 codec over an in-memory buffer of n bytes (mmap.MMap is a []byte). Up to three records
// with symbolic contents and lengths l1..l3 are appended; the segment must behave like a list: a record
// is accepted iff it fits, every accepted record reads back identical, truncation keeps exactly the
// prefix and zeroes the rest, and recovery of the buffer (RecoverIndex, as on reopen) rebuilds the same
// index and last offset.
func ZZSegment(n, l1, l2, l3 int) {
	base := vInt64("base")
	vAssume(base >= 0)
	vAssume(base < 1000000)
	ms := &readWriteSegment{
		c:             &segmentConfig{codec: codec.SupportedCodecs[0], baseOffset: base},
		txnMappedFile: make([]byte, n),
		segmentSize:   uint32(n),
		lastOffset:    base - 1,
		writingIdx:    make([]byte, 0, 64),
	}
	var stored [][]byte
	used := 0
	for i, l := range []int{l1, l2, l3} {
		if l == 0 {
			continue
		}
		p := zzPayload("p", l)
		fits := used+12+l <= n
		vAssert("has-space-is-exact", ms.HasSpace(l) == fits)
		err := ms.Append(base+int64(len(stored)), p)
		vAssert("accepted-iff-it-fits", (err == nil) == fits)
		if err == nil {
			stored = append(stored, p)
			used += 12 + l
		} else {
			vAssert("full-is-reported-as-full", err == ErrSegmentFull)
		}
		_ = i
	}
	vAssert("last-offset", ms.LastOffset() == base+int64(len(stored))-1)
	vAssert("out-of-order-append-rejected", ms.Append(base+int64(len(stored))+1, []byte{1}) != nil)
	for i, p := range stored {
		got, err := ms.Read(base + int64(i))
		vAssert("read-ok", err == nil)
		if err == nil {
			vAssert("read-length", len(got) == len(p))
			for j := range p {
				vAssert("read-identical", got[j] == p[j])
			}
		}
	}
	_, err := ms.Read(base + int64(len(stored)))
	vAssert("read-beyond-end-fails", err != nil)
	// what a reopen would rebuild from the bytes
	commit := base + int64(len(stored)) - 1
	idx, _, off, last, rerr := ms.c.codec.RecoverIndex(ms.txnMappedFile, 0, base, &commit)
	vAssert("recovery-ok", rerr == nil)
	if rerr == nil {
		vAssert("recovered-last-offset", last == ms.LastOffset())
		vAssert("recovered-file-offset", off == ms.currentFileOffset)
		vAssert("recovered-index-length", len(idx) == len(ms.writingIdx))
	}
	if len(stored) > 0 {
		t := vChoice("truncate-to", len(stored))
		terr := ms.Truncate(base + int64(t))
		_ = terr // Flush of a non-mapped buffer fails natively; the state change is what matters
		vAssert("truncated-last-offset", ms.LastOffset() == base+int64(t))
		end := 0
		for i := 0; i <= t; i++ {
			end += 12 + len(stored[i])
		}
		for j := end; j < n; j++ {
			vAssert("bytes-after-truncation-are-zero", ms.txnMappedFile[j] == 0)
		}
		for i := 0; i <= t; i++ {
			got, err := ms.Read(base + int64(i))
			vAssert("kept-record-readable", err == nil && len(got) == len(stored[i]))
		}
		_, err = ms.Read(base + int64(t) + 1)
		vAssert("dropped-record-unreadable", err != nil)
		room := ms.HasSpace(1)
		aerr := ms.Append(base+int64(t)+1, []byte{7})
		vAssert("append-continues-after-truncation", (aerr == nil) == room)
		if aerr == nil {
			// the record appended after the truncation must not disturb the kept prefix
			for i := 0; i <= t; i++ {
				got, err := ms.Read(base + int64(i))
				vAssert("kept-record-readable-after-append", err == nil && len(got) == len(stored[i]))
				if err == nil && len(got) == len(stored[i]) {
					for j := range got {
						vAssert("kept-record-identical-after-append", got[j] == stored[i][j])
					}
				}
			}
			got, err := ms.Read(base + int64(t) + 1)
			vAssert("new-record-readable", err == nil && len(got) == 1 && got[0] == 7)
			vAssert("last-offset-after-append", ms.LastOffset() == base+int64(t)+1)
			c2 := base + int64(t) + 1
			_, _, off2, last2, rerr2 := ms.c.codec.RecoverIndex(ms.txnMappedFile, 0, base, &c2)
			vAssert("recovery-after-truncate-append", rerr2 == nil && last2 == base+int64(t)+1 && off2 == ms.currentFileOffset)
		}
	}
	vReach("end")
}

// ZZSegmentBig (C09/C10): truncation of a LARGE discarded section. One small record (symbolic byte) is
// followed by three records of `big` bytes each, so that the section discarded by Truncate(base) spans
// several 4 KiB pages. After the truncation every byte behind the kept record is zero, recovery of the
// buffer (as on reopen) ends exactly at the kept record — no stale record of the discarded tail is accepted
// as valid — and a new record appended after the truncation is the only thing recovery finds behind it.
func ZZSegmentBig(big int) {
	n := 3*(big+12) + 64
	base := int64(5)
	ms := &readWriteSegment{
		c:             &segmentConfig{codec: codec.SupportedCodecs[0], baseOffset: base},
		txnMappedFile: make([]byte, n),
		segmentSize:   uint32(n),
		lastOffset:    base - 1,
		writingIdx:    make([]byte, 0, 64),
	}
	first := vBytes("first", 1)
	vAssert("append-first", ms.Append(base, first) == nil)
	for r := 0; r < 3; r++ {
		p := make([]byte, big)
		for i := range p {
			p[i] = byte(1 + (i+r)%250)
		}
		vAssert("append-big", ms.Append(base+1+int64(r), p) == nil)
	}
	vAssert("four-records", ms.LastOffset() == base+3)
	_ = ms.Truncate(base)
	vAssert("truncated", ms.LastOffset() == base)
	for j := 12 + 1; j < n; j++ {
		vAssert("every-discarded-byte-is-zero", ms.txnMappedFile[j] == 0)
	}
	c0 := base
	_, _, off, last, rerr := ms.c.codec.RecoverIndex(ms.txnMappedFile, 0, base, &c0)
	vAssert("recovery-ends-at-the-kept-record", rerr == nil && last == base && off == ms.currentFileOffset)
	vAssert("append-after-truncation", ms.Append(base+1, []byte{9, 9}) == nil)
	c1 := base + 1
	_, _, _, last, rerr = ms.c.codec.RecoverIndex(ms.txnMappedFile, 0, base, &c1)
	vAssert("recovery-finds-only-the-new-record", rerr == nil && last == base+1)
	vReach("end")
}
