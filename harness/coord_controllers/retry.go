package controllers

import (
	"github.com/oxia-db/oxia/coordinator/model"
	"github.com/oxia-db/oxia/proto"
)

// ZZElectRetry (C05): the real electLeader run as electLeaderWithRetries runs it — again after a failed
// attempt — and as a restarted coordinator runs it: from metadata whose durable status is st0 (Unknown /
// SteadyState / Election, i.e. a previous coordinator died in the middle of an election). In attempt 1 a
// symbolic subset of nodes is unreachable; in attempt 2 everybody answers. At EVERY prefix of the effect
// trace (= every coordinator crash point) no RPC carries a term that the status resource has not yet
// stored: a coordinator that restarts from the stored metadata can therefore never reuse a term that
// some node has already seen.
func ZZElectRetry(ne, st0 int) {
	var trace []zzEvent
	rpc := &zzCoordRpc{trace: &trace, heads: map[string]*proto.EntryId{}, fails: map[string]bool{}}
	st := &zzStatus{trace: &trace}
	old := int64(4)
	s := zzShardController(ne, 0, old, rpc, st)
	s.shardMetadata.Status = model.ShardStatus(st0)
	for i := 0; i < ne; i++ {
		name := zzServer(i).Internal
		rpc.fails[name] = vBool("fails")
		rpc.heads[name] = &proto.EntryId{Term: 1, Offset: int64(i)}
	}
	attempts := 1
	err := s.electLeader()
	if err != nil {
		vReach("first-attempt-failed")
		for i := 0; i < ne; i++ {
			rpc.fails[zzServer(i).Internal] = false
		}
		attempts = 2
		err = s.electLeader()
		vAssert("second-attempt-succeeds", err == nil)
	}
	stored := int64(-1)
	maxSent := int64(-1)
	for _, e := range trace {
		switch e.kind {
		case "store":
			vAssert("stored-term-never-decreases", e.term >= stored)
			stored = e.term
		default:
			vAssert("no-rpc-carries-a-term-that-is-not-yet-durable", e.term <= stored)
			vAssert("rpc-terms-never-decrease", e.term >= maxSent)
			maxSent = e.term
		}
	}
	if err == nil {
		vReach("elected")
		vAssert("one-become-leader-in-the-final-term", len(rpc.become) == 1 && rpc.become[0].Term == old+int64(attempts))
		last := st.stored[len(st.stored)-1]
		vAssert("final-metadata-names-the-leader", last.Leader != nil && last.Leader.Internal == rpc.leader && last.Status == model.ShardStatusSteadyState && last.Term == old+int64(attempts))
	}
	vReach("end")
}
