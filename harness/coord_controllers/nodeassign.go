package controllers

import (
	"context"
	"io"
	"log/slog"
	"time"

	"google.golang.org/grpc"
	"google.golang.org/grpc/health/grpc_health_v1"
	pb "google.golang.org/protobuf/proto"

	"github.com/oxia-db/oxia/common/metric"
	"github.com/oxia-db/oxia/coordinator/model"
	"github.com/oxia-db/oxia/proto"
)

// ---- model of the coordinator side (faithful to coordinator.WaitForNextUpdate: block while the caller's value
// equals the current assignments, then return the current ones)

type zzAssignProvider struct {
	cur     *proto.ShardAssignments
	changed chan struct{}
}

func (p *zzAssignProvider) WaitForNextUpdate(ctx context.Context, current *proto.ShardAssignments) (*proto.ShardAssignments, error) {
	for pb.Equal(current, p.cur) {
		select {
		case <-p.changed:
		case <-ctx.Done():
			return nil, ctx.Err()
		}
	}
	return p.cur, nil
}
func (p *zzAssignProvider) publish(a *proto.ShardAssignments) {
	p.cur = a
	select {
	case p.changed <- struct{}{}:
	default:
	}
}

// ---- model of the storage node's PushShardAssignments stream

type zzPushStream struct {
	grpc.ClientStream
	ctx     context.Context
	got     []*proto.ShardAssignments
	failing bool
	events  chan string
}

func (s *zzPushStream) Context() context.Context { return s.ctx }
func (s *zzPushStream) Send(a *proto.ShardAssignments) error {
	if s.failing {
		s.events <- "send-failed"
		return io.ErrClosedPipe
	}
	s.got = append(s.got, a)
	s.events <- "sent"
	return nil
}
func (s *zzPushStream) CloseAndRecv() (*proto.CoordinationShardAssignmentsResponse, error) {
	return &proto.CoordinationShardAssignmentsResponse{}, nil
}

type zzPushRpc struct {
	zzCoordRpc
	streams []*zzPushStream
	events  chan string
}

func (r *zzPushRpc) PushShardAssignments(ctx context.Context, _ model.Server) (proto.OxiaCoordination_PushShardAssignmentsClient, error) {
	st := &zzPushStream{ctx: ctx, events: r.events}
	r.streams = append(r.streams, st)
	return st, nil
}
func (r *zzPushRpc) GetHealthClient(model.Server) (grpc_health_v1.HealthClient, io.Closer, error) {
	return nil, nil, io.ErrClosedPipe
}

func zzMap(version int64) *proto.ShardAssignments {
	return &proto.ShardAssignments{Namespaces: map[string]*proto.NamespaceShardsAssignment{"default": {
		Assignments: []*proto.ShardAssignment{{Shard: version, Leader: "l"}}}}}
}

// ZZNodeAssignments (C18, coordinator -> server leg of "client and server agree"): the REAL node controller's
// assignment pusher (sendAssignmentsUpdatesWithRetries / sendAssignmentsUpdates / sendAssignmentsUpdateOnce) against
// a model of the coordinator's WaitForNextUpdate and of the node's stream. The coordinator publishes map 1, then
// 2; then the connection drops while map 3 is being sent (mode 0), or the node is declared back online after a
// failed health check — the stream is cancelled with NO new map published (mode 1: a restarted node holds nothing).
// On every stream the FIRST message is the coordinator's current map (a reconnecting node learns the map without
// waiting for a change), maps arrive in publication order without going backwards, and at quiescence the last
// message the node received is the current map.
func ZZNodeAssignments(mode int) {
	events := make(chan string, 16)
	rpc := &zzPushRpc{events: events}
	p := &zzAssignProvider{cur: zzMap(1), changed: make(chan struct{}, 1)}
	n := &nodeController{server: zzServer(0), shardAssignmentsProvider: p, rpc: rpc, status: Running, log: slog.Default(),
		initialRetryBackoff: time.Millisecond,
		failedHealthChecks:  metric.NewCounter("zz_failed_health_checks", "zz", "count", map[string]any{})}
	n.ctx, n.cancel = context.WithCancel(context.Background())
	n.healthCheckCtx, n.healthCheckCancel = context.WithCancel(n.ctx)
	done := make(chan struct{})
	vGo("send-updates", func() { n.sendAssignmentsUpdatesWithRetries(); close(done) })
	vAssert("map-1-sent", <-events == "sent")
	p.publish(zzMap(2))
	vAssert("map-2-sent", <-events == "sent")
	want := int64(2)
	if mode == 0 {
		rpc.streams[0].failing = true
		p.publish(zzMap(3))
		want = 3
		vAssert("send-of-map-3-fails-on-the-dead-connection", <-events == "send-failed")
	} else {
		// what processHealthCheckResponse does when the node answers again after a failed health check
		n.Lock()
		n.healthCheckCancel()
		n.healthCheckCtx, n.healthCheckCancel = context.WithCancel(n.ctx)
		n.Unlock()
	}
	vAssert("current-map-sent-on-the-new-stream", <-events == "sent")
	vAssert("a-second-stream-was-opened", len(rpc.streams) == 2)
	for _, st := range rpc.streams {
		last := int64(0)
		for _, m := range st.got {
			v := m.Namespaces["default"].Assignments[0].Shard
			vAssert("maps-never-go-backwards-on-a-stream", v >= last)
			last = v
		}
	}
	if len(rpc.streams) == 2 {
		st := rpc.streams[1]
		vAssert("first-message-of-a-new-stream-is-the-current-map", len(st.got) >= 1 && st.got[0].Namespaces["default"].Assignments[0].Shard == want)
		vAssert("node-ends-up-with-the-current-map", st.got[len(st.got)-1].Namespaces["default"].Assignments[0].Shard == p.cur.Namespaces["default"].Assignments[0].Shard)
	}
	n.cancel()
	p.publish(zzMap(9)) // wake the pusher so that it notices the closed controller
	<-done
	vReach("end")
}
