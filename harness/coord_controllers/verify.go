package controllers

import (
	"github.com/oxia-db/oxia/coordinator/model"
	"github.com/oxia-db/oxia/proto"
)

// ZZVerifyEnsemble (C05): what a (re)started coordinator does with a shard whose stored metadata names a
// leader: the real verifyCurrentEnsemble asks every ensemble member for its status. It may keep the stored
// leader WITHOUT a new election only when every member answers, the stored leader says LEADER, every other
// member says FOLLOWER, and all of them are in the stored term; anything else must lead to an election
// (otherwise a leader of an older term, or a second leader, would stay in the published assignments).
func ZZVerifyEnsemble(ne int) {
	var trace []zzEvent
	rpc := &zzCoordRpc{trace: &trace, heads: map[string]*proto.EntryId{}, fails: map[string]bool{}, statuses: map[string]*proto.GetStatusResponse{}}
	T := int64(5)
	s := zzShardController(ne, 0, T, rpc, &zzStatus{trace: &trace})
	li := vChoice("storedLeader", ne)
	l := zzServer(li)
	s.shardMetadata.Leader = &l
	consistent := true
	for i := 0; i < ne; i++ {
		name := zzServer(i).Internal
		fails := vBool("fails")
		st := proto.ServingStatus(vChoice("status", 4))
		term := T - 1 + int64(vChoice("term", 3))
		rpc.fails[name] = fails
		rpc.statuses[name] = &proto.GetStatusResponse{Term: term, Status: st, HeadOffset: 3, CommitOffset: 3}
		want := proto.ServingStatus_FOLLOWER
		if i == li {
			want = proto.ServingStatus_LEADER
		}
		if fails || st != want || term != T {
			consistent = false
		}
	}
	ok := s.verifyCurrentEnsemble()
	vAssert("keeps-the-stored-leader-only-when-every-member-confirms-it", ok == consistent)
	vAssert("verification-sends-no-new-term", len(trace) == 0)
	_ = model.ShardStatusSteadyState
	vReach("end")
}
