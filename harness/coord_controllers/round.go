package controllers

import (
	"context"
	"errors"
	"io"

	"google.golang.org/grpc/health/grpc_health_v1"

	"github.com/oxia-db/oxia/coordinator/model"
	"github.com/oxia-db/oxia/proto"
	"github.com/oxia-db/oxia/server"
	"github.com/oxia-db/oxia/server/kv"
)

// ---- one election round over three REAL server nodes and the REAL coordinator election

type zzNode struct {
	name string
	w    *zzWal
	m    *zzKV
	dir  server.ShardsDirector
	down bool
}

type zzCluster struct {
	nodes map[string]*zzNode
	// acknowledged history: entries 0..commit of the global log
	gterm  []int64
	gval   []byte
	commit int64
	leader string
	become int
}

// replication RPCs between servers (leader -> follower): routed like internalRpcServer does
func (c *zzCluster) Close() error { return nil }
func (c *zzCluster) GetReplicateStream(context.Context, string, string, int64, int64) (proto.OxiaLogReplication_ReplicateClient, error) {
	return nil, errors.New("zz: streams not modelled")
}
func (c *zzCluster) SendSnapshot(context.Context, string, string, int64, int64) (proto.OxiaLogReplication_SendSnapshotClient, error) {
	return nil, errors.New("zz: streams not modelled")
}
func (c *zzCluster) Truncate(follower string, req *proto.TruncateRequest) (*proto.TruncateResponse, error) {
	n := c.nodes[follower]
	if n.down {
		return nil, errors.New("zz: unreachable")
	}
	f, err := n.dir.GetOrCreateFollower(req.Namespace, req.Shard, req.Term)
	if err != nil {
		return nil, err
	}
	return f.Truncate(req)
}

// coordinator -> server RPCs
type zzRoundRpc struct{ c *zzCluster }

func (r zzRoundRpc) PushShardAssignments(context.Context, model.Server) (proto.OxiaCoordination_PushShardAssignmentsClient, error) {
	return nil, errors.New("zz")
}
func (r zzRoundRpc) NewTerm(_ context.Context, node model.Server, req *proto.NewTermRequest) (*proto.NewTermResponse, error) {
	n := r.c.nodes[node.Internal]
	if n.down {
		return nil, errors.New("zz: unreachable")
	}
	if f, err := n.dir.GetFollower(req.Shard); err == nil {
		r, err := f.NewTerm(req)
		if err != nil {
			vReach("follower-newterm-failed")
		}
		return r, err
	}
	l, err := n.dir.GetOrCreateLeader(req.Namespace, req.Shard)
	if err != nil {
		return nil, err
	}
	return l.NewTerm(req)
}
func (r zzRoundRpc) BecomeLeader(_ context.Context, node model.Server, req *proto.BecomeLeaderRequest) (*proto.BecomeLeaderResponse, error) {
	c := r.c
	n := c.nodes[node.Internal]
	c.become++
	c.leader = n.name
	// THE property: the node that is made leader holds every acknowledged entry, unchanged
	vAssert("new-leader-log-reaches-the-commit-offset", n.w.lastAppended >= c.commit)
	for o := int64(0); o <= c.commit && o <= n.w.lastAppended; o++ {
		e := n.w.at(o)
		vAssert("new-leader-holds-every-acknowledged-entry", e.term == c.gterm[o] && e.ts == 1000+uint64(c.gval[o]))
	}
	l, err := n.dir.GetOrCreateLeader(req.Namespace, req.Shard)
	if err != nil {
		return nil, err
	}
	resp, err := l.BecomeLeader(zzGiveUp(), req)
	if err != nil {
		if errors.Is(err, context.Canceled) {
			vReach("become-leader-gave-up")
		} else {
			vReach("become-leader-refused")
		}
	} else {
		vReach("became-leader")
	}
	return resp, err
}
func (r zzRoundRpc) AddFollower(context.Context, model.Server, *proto.AddFollowerRequest) (*proto.AddFollowerResponse, error) {
	return &proto.AddFollowerResponse{}, nil
}
func (r zzRoundRpc) GetStatus(context.Context, model.Server, *proto.GetStatusRequest) (*proto.GetStatusResponse, error) {
	return &proto.GetStatusResponse{}, nil
}
func (r zzRoundRpc) DeleteShard(context.Context, model.Server, *proto.DeleteShardRequest) (*proto.DeleteShardResponse, error) {
	return &proto.DeleteShardResponse{}, nil
}
func (r zzRoundRpc) GetHealthClient(model.Server) (grpc_health_v1.HealthClient, io.Closer, error) {
	return nil, nil, errors.New("zz")
}
func (r zzRoundRpc) ClearPooledConnections(model.Server) {}

type zzGiveUpCtx struct {
	context.Context
	ch chan struct{}
}

func (c zzGiveUpCtx) Done() <-chan struct{} { return c.ch }
func (c zzGiveUpCtx) Err() error            { return context.Canceled }
func zzGiveUp() context.Context {
	ch := make(chan struct{})
	close(ch)
	return zzGiveUpCtx{context.Background(), ch}
}

func zzLogEntry(o int, term int64, val byte) *proto.LogEntry {
	lev := &proto.LogEntryValue{Value: &proto.LogEntryValue_Requests{Requests: &proto.WriteRequests{Writes: []*proto.WriteRequest{
		{Puts: []*proto.PutRequest{{Key: "k", Value: []byte{val}}}}}}}}
	b, _ := lev.MarshalVT()
	return &proto.LogEntry{Term: term, Offset: int64(o), Value: b, Timestamp: 1000 + uint64(val)}
}

// ZZRound (C01, one election round as an inductive step). Pre-state: a global log G of ng entries with
// non-decreasing terms (chosen by the bits of `steps`), of which 0..commit were acknowledged to clients by the old leader s0:
// s0 holds G[0..a], s1 holds G[0..b] with b >= commit (it completed the commit quorum), and s2 is stale:
// it shares the first p entries and then holds q entries of its own whose terms are below the term of
// G[p] (Leader Completeness for the old terms). All nodes are in term Told. Then the REAL coordinator
// election runs (real electLeader / newTermQuorum / selectNewLeader / becomeLeader) against the REAL
// server controllers behind real shard directors; a symbolic subset of nodes is unreachable. Whoever is
// sent BecomeLeader must hold every acknowledged entry unchanged.
func ZZRound(ng, commit, a, b, p, q, downMask, steps int) {
	Told := int64(4)
	c := &zzCluster{nodes: map[string]*zzNode{}, commit: int64(commit), gterm: make([]int64, ng), gval: vBytes("payload", ng)}
	prev := int64(1)
	for i := 0; i < ng; i++ {
		c.gterm[i] = prev + int64((steps>>i)&1)
		vAssume(c.gterm[i] <= Told)
		prev = c.gterm[i]
	}
	lens := []int{a + 1, b + 1, p}
	for i := 0; i < 3; i++ {
		name := zzServer(i).Internal
		n := &zzNode{name: name, w: zzNewWal(name), m: &zzKV{}}
		for o := 0; o < lens[i]; o++ {
			_ = n.w.AppendAsync(zzLogEntry(o, c.gterm[o], c.gval[o]))
		}
		if i == 2 {
			sp := int64(1)
			if p > 0 {
				sp = c.gterm[p-1]
			}
			for j := 0; j < q; j++ {
				t := sp + int64((steps>>(4+j))&1)
				if p < ng {
					vAssume(t < c.gterm[p])
				}
				vAssume(t <= Told)
				sp = t
				_ = n.w.AppendAsync(zzLogEntry(p+j, t, 200))
			}
		}
		n.w.lastSynced = n.w.lastAppended
		d, _ := kv.NewDB("zz", 1, &zzFactory{kv: n.m}, 0, nil)
		_ = d.UpdateTerm(Told, kv.TermOptions{})
		n.dir = server.NewShardsDirector(server.Config{}, &zzWalFactory{n.w}, &zzFactory{kv: n.m}, c)
		if i == 0 {
			_, err := n.dir.GetOrCreateLeader("zz", 1)
			vAssert("node-open", err == nil)
		} else {
			_, err := n.dir.GetOrCreateFollower("zz", 1, Told)
			vAssert("node-open", err == nil)
		}
		n.down = downMask&(1<<i) != 0
		c.nodes[name] = n
	}
	var trace []zzEvent
	st := &zzStatus{trace: &trace}
	rpc := &zzCoordRpc{trace: &trace, heads: map[string]*proto.EntryId{}, fails: map[string]bool{}}
	_ = rpc
	s := zzShardController(3, 0, Told, nil, st)
	s.rpc = zzRoundRpc{c}
	err := s.electLeader()
	downs := 0
	for _, n := range c.nodes {
		if n.down {
			downs++
		}
	}
	if err == nil {
		vReach("elected")
		vAssert("one-become-leader", c.become == 1)
		vAssert("majority-was-reachable", downs <= 1)
	} else {
		vReach("no-leader")
	}
	vReach("end")
}
