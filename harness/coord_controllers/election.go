package controllers

import (
	"context"
	"errors"
	"io"
	"log/slog"
	"sync"

	"github.com/emirpasic/gods/v2/sets/linkedhashset"
	"google.golang.org/grpc/health/grpc_health_v1"

	"github.com/oxia-db/oxia/common/metric"
	"github.com/oxia-db/oxia/coordinator/model"
	"github.com/oxia-db/oxia/coordinator/resources"
	"github.com/oxia-db/oxia/coordinator/selectors"
	"github.com/oxia-db/oxia/proto"
)

var _ = selectors.ErrUnsatisfiedAntiAffinity

func zzServer(i int) model.Server {
	names := []string{"s0", "s1", "s2", "s3", "s4", "s5"}
	return model.Server{Public: names[i], Internal: names[i]}
}

// ZZSelect (C05): the real selectNewLeader on k responses with symbolic heads: the leader is a
// responder whose (term, offset) is lexicographically maximal; the followers are exactly the rest.
func ZZSelect(k int) {
	resp := map[model.Server]*proto.EntryId{}
	terms := make([]int64, k)
	offs := make([]int64, k)
	for i := 0; i < k; i++ {
		terms[i] = vInt64("term")
		offs[i] = vInt64("offset")
		vAssume(terms[i] >= -1)
		vAssume(terms[i] < 1000)
		vAssume(offs[i] >= -1)
		vAssume(offs[i] < 1000000)
		resp[zzServer(i)] = &proto.EntryId{Term: terms[i], Offset: offs[i]}
	}
	leader, followers := selectNewLeader(resp)
	li := -1
	for i := 0; i < k; i++ {
		if zzServer(i) == leader {
			li = i
		}
	}
	vAssert("leader-is-a-responder", li >= 0)
	if li >= 0 {
		for i := 0; i < k; i++ {
			vAssert("leader-head-is-maximal", terms[li] > terms[i] || (terms[li] == terms[i] && offs[li] >= offs[i]))
			_, isF := followers[zzServer(i)]
			vAssert("followers-are-the-other-responders", isF == (i != li))
		}
	}
	vAssert("follower-count", len(followers) == k-1)
	vReach("end")
}

// ---- models of the coordinator's environment

type zzEvent struct {
	kind string // "store" | "newterm" | "become" | "delete"
	term int64
	node string
}

type zzCoordRpc struct {
	mu     sync.Mutex
	trace  *[]zzEvent
	heads  map[string]*proto.EntryId
	fails  map[string]bool
	become []*proto.BecomeLeaderRequest
	leader string
	statuses map[string]*proto.GetStatusResponse // nil: GetStatus answers with an empty status
	failN   map[string]int                       // the next failN[node] NewTerm calls on the node fail, then it answers
	added   []zzAdded
	addedCh chan struct{}
}

type zzAdded struct {
	leader string
	req    *proto.AddFollowerRequest
}

func (r *zzCoordRpc) PushShardAssignments(context.Context, model.Server) (proto.OxiaCoordination_PushShardAssignmentsClient, error) {
	return nil, errors.New("zz")
}
func (r *zzCoordRpc) NewTerm(_ context.Context, node model.Server, req *proto.NewTermRequest) (*proto.NewTermResponse, error) {
	r.mu.Lock()
	defer r.mu.Unlock()
	*r.trace = append(*r.trace, zzEvent{"newterm", req.Term, node.Internal})
	if r.fails[node.Internal] {
		return nil, errors.New("zz: node unreachable")
	}
	if r.failN[node.Internal] > 0 {
		r.failN[node.Internal]--
		return nil, errors.New("zz: node unreachable for now")
	}
	return &proto.NewTermResponse{HeadEntryId: r.heads[node.Internal]}, nil
}
func (r *zzCoordRpc) BecomeLeader(_ context.Context, node model.Server, req *proto.BecomeLeaderRequest) (*proto.BecomeLeaderResponse, error) {
	r.mu.Lock()
	defer r.mu.Unlock()
	*r.trace = append(*r.trace, zzEvent{"become", req.Term, node.Internal})
	r.become = append(r.become, req)
	r.leader = node.Internal
	return &proto.BecomeLeaderResponse{}, nil
}
func (r *zzCoordRpc) AddFollower(_ context.Context, node model.Server, req *proto.AddFollowerRequest) (*proto.AddFollowerResponse, error) {
	r.mu.Lock()
	r.added = append(r.added, zzAdded{node.Internal, req})
	ch := r.addedCh
	r.mu.Unlock()
	if ch != nil {
		ch <- struct{}{}
	}
	return &proto.AddFollowerResponse{}, nil
}
func (r *zzCoordRpc) GetStatus(_ context.Context, node model.Server, _ *proto.GetStatusRequest) (*proto.GetStatusResponse, error) {
	if r.statuses != nil {
		if r.fails[node.Internal] {
			return nil, errors.New("zz: node unreachable")
		}
		return r.statuses[node.Internal], nil
	}
	return &proto.GetStatusResponse{}, nil
}
func (r *zzCoordRpc) DeleteShard(_ context.Context, node model.Server, req *proto.DeleteShardRequest) (*proto.DeleteShardResponse, error) {
	r.mu.Lock()
	defer r.mu.Unlock()
	*r.trace = append(*r.trace, zzEvent{"delete", req.Term, node.Internal})
	return &proto.DeleteShardResponse{}, nil
}
func (r *zzCoordRpc) GetHealthClient(model.Server) (grpc_health_v1.HealthClient, io.Closer, error) {
	return nil, nil, errors.New("zz")
}
func (r *zzCoordRpc) ClearPooledConnections(model.Server) {}

type zzStatus struct {
	resources.StatusResource
	trace  *[]zzEvent
	stored []model.ShardMetadata
}

func (s *zzStatus) UpdateShardMetadata(_ string, _ int64, md model.ShardMetadata) {
	*s.trace = append(*s.trace, zzEvent{"store", md.Term, ""})
	s.stored = append(s.stored, md.Clone())
}

type zzConfig struct{ resources.ClusterConfigResource }

func (zzConfig) Node(string) (*model.Server, bool) { return nil, false }
func (zzConfig) Nodes() *linkedhashset.Set[string]  { return linkedhashset.New[string]() }

func zzShardController(ne, nr int, term int64, rpc *zzCoordRpc, st *zzStatus) *shardController {
	labels := metric.LabelsForShard("zz", 1)
	md := model.ShardMetadata{Status: model.ShardStatusSteadyState, Term: term}
	for i := 0; i < ne; i++ {
		md.Ensemble = append(md.Ensemble, zzServer(i))
	}
	for i := 0; i < nr; i++ {
		md.RemovedNodes = append(md.RemovedNodes, zzServer(ne+i))
	}
	s := &shardController{
		namespace: "zz", shard: 1, namespaceConfig: &model.NamespaceConfig{Name: "zz", ReplicationFactor: uint32(ne)},
		shardMetadata: md, rpc: rpc, statusResource: st, configResource: zzConfig{},
		log: slog.Default(), wg: &sync.WaitGroup{},
		leaderElectionLatency: metric.NewLatencyHistogram("zz_leader_election_latency", "zz", labels),
		leaderElectionsFailed: metric.NewCounter("zz_leader_election_failed", "zz", "count", labels),
		newTermQuorumLatency:  metric.NewLatencyHistogram("zz_new_term_quorum_latency", "zz", labels),
		becomeLeaderLatency:   metric.NewLatencyHistogram("zz_become_leader_latency", "zz", labels),
	}
	s.ctx, s.cancel = context.WithCancel(context.Background())
	return s
}

func zzSymbolicNodes(n int, rpc *zzCoordRpc) (fails []bool, terms, offs []int64) {
	fails = make([]bool, n)
	terms = make([]int64, n)
	offs = make([]int64, n)
	for i := 0; i < n; i++ {
		fails[i] = vBool("fails")
		terms[i] = int64(vChoice("headTerm", 3))
		offs[i] = int64(vChoice("headOffset", 3))
		name := zzServer(i).Internal
		rpc.fails[name] = fails[i]
		rpc.heads[name] = &proto.EntryId{Term: terms[i], Offset: offs[i]}
	}
	return
}

// ZZQuorum (C05): the real newTermQuorum with its goroutines, response channel and grace-period
// select, over ne ensemble members + nr removed nodes; every node fails or answers with a symbolic
// head; every arrival order and both grace-period outcomes are explored.
func ZZQuorum(ne, nr int) {
	var trace []zzEvent
	rpc := &zzCoordRpc{trace: &trace, heads: map[string]*proto.EntryId{}, fails: map[string]bool{}}
	st := &zzStatus{trace: &trace}
	s := zzShardController(ne, nr, 5, rpc, st)
	fails, _, _ := zzSymbolicNodes(ne+nr, rpc)
	res, err := s.newTermQuorum()
	okAll, okEns := 0, 0
	for i := 0; i < ne+nr; i++ {
		if !fails[i] {
			okAll++
			if i < ne {
				okEns++
			}
		}
	}
	if err != nil {
		vReach("no-quorum")
		vAssert("refused-only-without-a-fencing-majority", okAll < (ne+nr)/2+1)
		vReach("end")
		return
	}
	vReach("quorum")
	fencedEns := 0
	for i := 0; i < ne+nr; i++ {
		_, in := res[zzServer(i)]
		if in {
			vAssert("candidate-answered-successfully", !fails[i])
			if vKnown("KF-C05-removed-node-among-candidates", i >= ne) {
				vAssert("candidate-belongs-to-the-ensemble-being-installed", i < ne)
			} else {
				vAssert("candidate-belongs-to-the-ensemble-being-installed", i < ne)
			}
			if i < ne {
				fencedEns++
			}
		}
	}
	vAssert("fencing-majority-reached", okAll >= (ne+nr)/2+1)
	if vKnown("KF-C05-majority-counts-removed-nodes", nr >= 2 && okEns < ne/2+1) {
		vAssert("majority-of-the-ensemble-fenced", okEns >= ne/2+1)
	} else {
		vAssert("majority-of-the-ensemble-fenced", okEns >= ne/2+1)
	}
	vAssert("candidates-nonempty", len(res) > 0)
	vReach("end")
}

// ZZElect (C05): the real electLeader against recording models of the status resource and the RPC
// layer. At EVERY prefix of the effect trace (= every coordinator crash point) the highest term ever
// sent in an RPC is a term that had already been stored; the new term is strictly greater than the
// previous one; BecomeLeader goes to one node, in the stored term, with RF = |ensemble| and followers
// among the responders; the final stored metadata names that node.
func ZZElect(ne, nr int) {
	var trace []zzEvent
	rpc := &zzCoordRpc{trace: &trace, heads: map[string]*proto.EntryId{}, fails: map[string]bool{}}
	st := &zzStatus{trace: &trace}
	old := int64(vChoice("oldTerm", 3)) + 4
	s := zzShardController(ne, nr, old, rpc, st)
	fails, terms, offs := zzSymbolicNodes(ne+nr, rpc)
	err := s.electLeader()
	stored := int64(-1)
	for _, e := range trace {
		switch e.kind {
		case "store":
			vAssert("stored-term-never-decreases", e.term >= stored)
			stored = e.term
		default:
			vAssert("no-rpc-carries-a-term-that-is-not-yet-durable", e.term <= stored)
			vAssert("rpc-term-is-the-new-term", e.term == old+1)
		}
	}
	vAssert("term-strictly-increased-and-stored-first", len(st.stored) > 0 && st.stored[0].Term == old+1)
	if err == nil {
		vReach("elected")
		vAssert("exactly-one-become-leader", len(rpc.become) == 1)
		b := rpc.become[0]
		vAssert("become-leader-in-stored-term", b.Term == old+1)
		vAssert("replication-factor-is-ensemble-size", int(b.ReplicationFactor) == ne)
		li := -1
		for i := 0; i < ne+nr; i++ {
			if zzServer(i).Internal == rpc.leader {
				li = i
			}
		}
		vAssert("leader-answered-new-term", li >= 0 && !fails[li])
		if vKnown("KF-C05-removed-node-among-candidates", li >= ne) {
			vAssert("leader-belongs-to-ensemble", li < ne)
		} else {
			vAssert("leader-belongs-to-ensemble", li < ne)
		}
		for i := 0; i < ne; i++ {
			if !fails[i] && li >= 0 {
				if _, responded := b.FollowerMaps[zzServer(i).Internal]; responded || i == li {
					vAssert("leader-head-maximal-among-fenced-ensemble-responders", terms[li] > terms[i] || (terms[li] == terms[i] && offs[li] >= offs[i]))
				}
			}
		}
		for f := range b.FollowerMaps {
			fi := -1
			for i := 0; i < ne+nr; i++ {
				if zzServer(i).Internal == f {
					fi = i
				}
			}
			vAssert("follower-is-a-responder", fi >= 0 && !fails[fi])
		}
		last := st.stored[len(st.stored)-1]
		vAssert("final-metadata-names-the-leader", last.Leader != nil && last.Leader.Internal == rpc.leader && last.Status == model.ShardStatusSteadyState && last.Term == old+1)
	} else {
		vReach("failed")
		vAssert("no-leader-installed-on-failure", len(rpc.become) == 0)
	}
	vReach("end")
}

// ZZReplace (C19): the ensemble bookkeeping of a node swap (replaceInList, mergeLists, listContains)
// with symbolic 1-byte server identifiers: when the new server is not already a member, the new
// ensemble has the same size, contains the new server exactly once, not the old one, and no duplicates.
func ZZReplace(n int) {
	ids := vBytes("id", n+2)
	// named servers: every value carries its own *string (as after a config reload or a status decode), so two
	// values of the same server are equal by identifier but not bit-identical
	mk := func(b byte) model.Server {
		s := string([]byte{b})
		nm := "n" + s
		return model.Server{Name: &nm, Public: s, Internal: s}
	}
	var list []model.Server
	for i := 0; i < n; i++ {
		for j := 0; j < i; j++ {
			vAssume(ids[i] != ids[j])
		}
		list = append(list, mk(ids[i]))
	}
	from := mk(ids[vChoice("from", n)])
	to := mk(ids[n])
	vAssume(!listContains(list, to))
	res := replaceInList(list, from, to)
	vAssert("same-size", len(res) == n)
	vAssert("contains-new", listContains(res, to))
	vAssert("drops-old", !listContains(res, from))
	for i := range res {
		for j := 0; j < i; j++ {
			vAssert("no-duplicates", res[i].GetIdentifier() != res[j].GetIdentifier())
		}
	}
	merged := mergeLists(res, []model.Server{from})
	vAssert("fencing-quorum-covers-old-and-new", len(merged) == n+1 && listContains(merged, from) && listContains(merged, to))
	vReach("end")
}
