package controllers

import (
	"github.com/oxia-db/oxia/common/metric"
	"github.com/oxia-db/oxia/coordinator/model"
	"github.com/oxia-db/oxia/proto"
)

// ZZShardLoop (C05, C01): the shard controller's OWN event loop (real run(): initial election, then the operations
// arriving on its channels) with the real retry goroutine for a follower that missed the election
// (keepFencingFailedFollowers -> keepFencingFollower -> backoff.RetryNotify -> newTermAndAddFollower ->
// run() -> internalNewTermAndAddFollower). The last ensemble member fails its first `misses` NewTerm calls and then
// answers. Through the whole episode: one BecomeLeader, in the stored term; the late member is eventually added on
// the elected leader with the head it reported, in that same term, exactly once; no RPC carries a term that is not
// durable; the term is bumped exactly once.
func ZZShardLoop(ne, misses int) {
	var trace []zzEvent
	rpc := &zzCoordRpc{trace: &trace, heads: map[string]*proto.EntryId{}, fails: map[string]bool{}, failN: map[string]int{},
		addedCh: make(chan struct{}, 8)}
	st := &zzStatus{trace: &trace}
	s := zzShardController(ne, 0, 4, rpc, st)
	s.shardMetadata.Leader = nil
	s.shardMetadata.Status = model.ShardStatusUnknown
	s.electionOp = make(chan any, chanBufferSize)
	s.deleteOp = make(chan any, chanBufferSize)
	s.nodeFailureOp = make(chan model.Server, chanBufferSize)
	s.swapNodeOp = make(chan swapNodeRequest, chanBufferSize)
	s.newTermAndAddFollowerOp = make(chan newTermAndAddFollowerRequest, chanBufferSize)
	s.termGauge = metric.NewGauge("zz_coordinator_term", "zz", "count", metric.LabelsForShard("zz", 1), func() int64 { return 0 })
	late := zzServer(ne - 1)
	for i := 0; i < ne; i++ {
		rpc.heads[zzServer(i).Internal] = &proto.EntryId{Term: 1, Offset: int64(i % 2)}
	}
	rpc.heads[late.Internal] = &proto.EntryId{Term: 1, Offset: 7}
	rpc.failN[late.Internal] = misses
	s.wg.Add(1)
	vGo("shard-controller", s.run)
	// the followers that answered are added by BecomeLeader's follower map; the late one by AddFollower
	if misses > 0 {
		<-rpc.addedCh
	}
	vSettle(20)
	_ = s.Close()
	rpc.mu.Lock()
	defer rpc.mu.Unlock()
	vAssert("exactly-one-become-leader", len(rpc.become) == 1)
	T := int64(5)
	if len(rpc.become) == 1 {
		vAssert("leader-elected-in-the-next-term", rpc.become[0].Term == T)
	}
	stored := int64(-1)
	for _, e := range trace {
		if e.kind == "store" {
			vAssert("stored-term-never-decreases", e.term >= stored)
			stored = e.term
		} else {
			vAssert("no-rpc-carries-a-term-that-is-not-yet-durable", e.term <= stored)
			vAssert("term-bumped-exactly-once", e.term == T)
		}
	}
	if misses > 0 {
		vAssert("late-member-added-exactly-once", len(rpc.added) == 1)
		if len(rpc.added) == 1 {
			a := rpc.added[0]
			vAssert("added-on-the-elected-leader", a.leader == rpc.leader && a.leader != late.Internal)
			vAssert("adds-the-late-member-with-its-reported-head", a.req.FollowerName == late.Internal && a.req.Term == T &&
				a.req.FollowerHeadEntryId.Term == 1 && a.req.FollowerHeadEntryId.Offset == 7)
		}
	} else {
		vAssert("nobody-left-to-add", len(rpc.added) == 0)
	}
	vReach("end")
}
