package controllers

import (
	"context"

	"github.com/oxia-db/oxia/coordinator/model"
	"github.com/oxia-db/oxia/proto"
)

// ZZLateFollower (C05, C01): an ensemble member that did not answer during an election is brought back by the
// real internalNewTermAndAddFollower. The election (real electLeader, ne nodes, the last one unreachable) has
// stored term T and a leader; then the late node answers — or still fails — with a SYMBOLIC head. The node is
// fenced with exactly the stored term T (never an older or a not-yet-stored one), the leader — the one the
// metadata names — is told to add exactly that node with exactly the head the node reported, in term T; if the
// node fails, or no leader is recorded (gone = 1), nothing is added and the caller gets an error.
func ZZLateFollower(ne, gone int) {
	var trace []zzEvent
	rpc := &zzCoordRpc{trace: &trace, heads: map[string]*proto.EntryId{}, fails: map[string]bool{}}
	st := &zzStatus{trace: &trace}
	s := zzShardController(ne, 0, 4, rpc, st)
	s.shardMetadata.Leader = nil
	late := zzServer(ne - 1)
	for i := 0; i < ne; i++ {
		rpc.heads[zzServer(i).Internal] = &proto.EntryId{Term: 1, Offset: int64(vChoice("headOffset", 3))}
	}
	rpc.fails[late.Internal] = true
	vAssert("elected-without-the-late-node", s.electLeader() == nil)
	T := s.shardMetadata.Term
	vAssert("term-stored", len(st.stored) > 0 && st.stored[len(st.stored)-1].Term == T && T == 5)
	leader := s.shardMetadata.Leader
	vAssert("leader-recorded", leader != nil && leader.Internal == rpc.leader && leader.Internal != late.Internal)
	for _, a := range rpc.added {
		vAssert("unreachable-node-not-added", a.req.FollowerName != late.Internal)
	}
	n0 := len(rpc.added)
	t0 := len(trace)

	stillFails := vBool("stillFails")
	rpc.fails[late.Internal] = stillFails
	ht, ho := vInt64("lateHeadTerm"), vInt64("lateHeadOffset")
	vAssume(ht >= -1 && ht <= T)
	vAssume(ho >= -1 && ho < 1000)
	rpc.heads[late.Internal] = &proto.EntryId{Term: ht, Offset: ho}
	if gone == 1 {
		s.shardMetadata.Leader = nil
	}
	res := make(chan error, 1)
	s.internalNewTermAndAddFollower(context.Background(), late, res)
	err := <-res
	sawNewTerm := false
	for _, e := range trace[t0:] {
		if e.kind == "newterm" {
			vAssert("late-node-fenced-with-the-stored-term", e.node == late.Internal && e.term == T)
			sawNewTerm = true
		}
		vAssert("no-other-rpc", e.kind == "newterm")
	}
	vAssert("late-node-was-asked", sawNewTerm)
	if stillFails || gone == 1 {
		vAssert("failure-reported", err != nil)
		vAssert("nothing-added", len(rpc.added) == n0)
	} else {
		vAssert("rejoined", err == nil)
		vAssert("exactly-one-add-follower", len(rpc.added) == n0+1)
		if len(rpc.added) == n0+1 {
			a := rpc.added[n0]
			vAssert("sent-to-the-recorded-leader", a.leader == leader.Internal)
			vAssert("adds-the-late-node", a.req.FollowerName == late.Internal)
			vAssert("in-the-stored-term", a.req.Term == T)
			vAssert("with-the-head-the-node-reported", a.req.FollowerHeadEntryId != nil && a.req.FollowerHeadEntryId.Term == ht && a.req.FollowerHeadEntryId.Offset == ho)
			vAssert("for-this-shard", a.req.Shard == 1 && a.req.Namespace == "zz")
		}
	}
	vAssert("metadata-unchanged-by-a-rejoin", s.shardMetadata.Term == T)
	vReach("end")
}

// ZZNodeFailure (C05): the real handleNodeFailure in the state an election leaves behind: the failure of a node that is not the
// recorded leader changes nothing (no RPC, no term), the failure of the leader starts an election in a NEW term
// (stored before any node sees it) whose leader is another node.
func ZZNodeFailure(ne int) {
	var trace []zzEvent
	rpc := &zzCoordRpc{trace: &trace, heads: map[string]*proto.EntryId{}, fails: map[string]bool{}}
	st := &zzStatus{trace: &trace}
	s := zzShardController(ne, 0, 4, rpc, st)
	// the state an election leaves behind: term 5 stored, s0 leads
	l0 := zzServer(0)
	s.shardMetadata.Leader = &l0
	s.shardMetadata.Term = 5
	st.UpdateShardMetadata("zz", 1, s.shardMetadata)
	for i := 0; i < ne; i++ {
		rpc.heads[zzServer(i).Internal] = &proto.EntryId{Term: 1, Offset: int64(vChoice("headOffset", 2))}
	}
	T := s.shardMetadata.Term
	leader := l0
	t0 := len(trace)
	which := vChoice("failed", ne)
	failed := zzServer(which)
	rpc.fails[failed.Internal] = true
	s.handleNodeFailure(failed)
	if failed.Internal != leader.Internal {
		vAssert("follower-failure-changes-nothing", len(trace) == t0 && s.shardMetadata.Term == T && s.shardMetadata.Leader.Internal == leader.Internal)
	} else {
		vAssert("leader-failure-starts-a-new-term", s.shardMetadata.Term == T+1)
		vAssert("new-leader-is-another-node", s.shardMetadata.Leader != nil && s.shardMetadata.Leader.Internal != failed.Internal)
		stored := int64(-1)
		for _, e := range trace {
			if e.kind == "store" {
				stored = e.term
			} else {
				vAssert("no-rpc-carries-a-term-that-is-not-yet-durable", e.term <= stored)
			}
		}
	}
	vReach("end")
}

var _ = model.ShardStatusSteadyState
