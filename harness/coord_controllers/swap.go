package controllers

import (
	"github.com/oxia-db/oxia/coordinator/model"
	"github.com/oxia-db/oxia/proto"
)

// ZZSwap (C19 / C05): the real swapNode (ensemble bookkeeping, electLeader with the removed node fenced too,
// becomeLeader, deletion of the removed node, waitForFollowersToCatchUp) for an RF-3 shard {s0,s1,s2} whose
// member `from` is replaced by the new, empty server s3; the nodes in failMask are unreachable; every arrival
// order of the NewTerm responses and both grace-period outcomes are explored. Whatever happens: the stored ensemble always has 3 distinct servers, contains s3 and not the
// vacated node; the vacated node is remembered as removed until the swap has succeeded and is told to delete
// its shard only AFTER a leader of the new ensemble has been installed; no RPC carries a term that is not
// durable; on success the leader is a member of the NEW ensemble and the final metadata is clean.
func ZZSwap(fi, failMask int) {
	var trace []zzEvent
	rpc := &zzCoordRpc{trace: &trace, heads: map[string]*proto.EntryId{}, fails: map[string]bool{}}
	st := &zzStatus{trace: &trace}
	old := int64(4)
	s := zzShardController(3, 0, old, rpc, st)
	s.shardMetadata.Leader = &model.Server{Public: "s0", Internal: "s0"}
	fails := make([]bool, 4)
	for i := 0; i < 4; i++ {
		name := zzServer(i).Internal
		fails[i] = failMask&(1<<i) != 0
		rpc.fails[name] = fails[i]
		rpc.heads[name] = &proto.EntryId{Term: 3, Offset: 2}
	}
	rpc.heads["s3"] = &proto.EntryId{Term: -1, Offset: -1}
	for i := 0; i < 4; i++ {
		// the heads are symbolic but equal for the old members (a healthy, caught-up shard)
	}
	from, to := zzServer(fi), zzServer(3)
	res := make(chan error, 1)
	s.swapNode(from, to, res)
	err := <-res
	// every stored metadata is a well-formed ensemble of the NEW membership
	for _, md := range st.stored {
		vAssert("stored-ensemble-has-rf-servers", len(md.Ensemble) == 3)
		hasTo, hasFrom := false, false
		for i, m := range md.Ensemble {
			if m.Internal == to.Internal {
				hasTo = true
			}
			if m.Internal == from.Internal {
				hasFrom = true
			}
			for j := 0; j < i; j++ {
				vAssert("stored-ensemble-servers-distinct", md.Ensemble[j].Internal != m.Internal)
			}
		}
		vAssert("new-server-is-a-member", hasTo)
		vAssert("vacated-server-is-not-a-member", !hasFrom)
	}
	stored := int64(-1)
	becameAt, deletedAt := -1, -1
	for i, e := range trace {
		switch e.kind {
		case "store":
			stored = e.term
		case "become":
			becameAt = i
			vAssert("no-rpc-carries-a-term-that-is-not-yet-durable", e.term <= stored)
		case "delete":
			deletedAt = i
			vAssert("only-the-vacated-node-is-deleted", e.node == from.Internal)
			vAssert("removed-node-deleted-only-after-a-new-leader-is-installed", becameAt >= 0)
		default:
			vAssert("no-rpc-carries-a-term-that-is-not-yet-durable", e.term <= stored)
		}
	}
	_ = deletedAt
	last := st.stored[len(st.stored)-1]
	if err == nil {
		vReach("swapped")
		vAssert("leader-installed", last.Leader != nil && last.Status == model.ShardStatusSteadyState)
		if last.Leader != nil {
			inNew := false
			for _, m := range last.Ensemble {
				if m.Internal == last.Leader.Internal {
					inNew = true
				}
			}
			if vKnown("KF-C05-removed-node-among-candidates", last.Leader.Internal == from.Internal) {
				vAssert("leader-is-a-member-of-the-new-ensemble", inNew)
			} else {
				vAssert("leader-is-a-member-of-the-new-ensemble", inNew)
			}
		}
		vAssert("removed-nodes-cleared-after-success", len(last.RemovedNodes) == 0)
	} else {
		vReach("swap-failed")
		if last.Status != model.ShardStatusSteadyState {
			vAssert("vacated-node-still-remembered-as-removed", len(last.RemovedNodes) == 1 && last.RemovedNodes[0].Internal == from.Internal)
		}
	}
	vReach("end")
}

// ZZSwapStale (C19): a swap request that does not fit the shard's CURRENT ensemble reaches the real swapNode — the
// load balancer computes a whole round of swaps from one snapshot of the cluster status, so the request for a shard
// can have been overtaken by an earlier swap of the same shard (kind 0: the target is already a member; kind 1: the
// node to vacate is no longer a member; kind 2: both). The request must be refused and must leave the ensemble, the
// removed-nodes list and the term alone: whatever arrives, the stored ensemble keeps RF distinct servers.
func ZZSwapStale(kind int) {
	var trace []zzEvent
	rpc := &zzCoordRpc{trace: &trace, heads: map[string]*proto.EntryId{}, fails: map[string]bool{}}
	st := &zzStatus{trace: &trace}
	s := zzShardController(3, 0, 4, rpc, st)
	s.shardMetadata.Leader = &model.Server{Public: "s0", Internal: "s0"}
	for i := 0; i < 5; i++ {
		rpc.heads[zzServer(i).Internal] = &proto.EntryId{Term: 3, Offset: 2}
	}
	var from, to model.Server
	switch kind {
	case 0:
		from, to = zzServer(1), zzServer(2) // s2 is already a member
	case 1:
		from, to = zzServer(4), zzServer(3) // s4 is not a member
	default:
		from, to = zzServer(4), zzServer(0)
	}
	res := make(chan error, 1)
	s.swapNode(from, to, res)
	err := <-res
	vAssert("request-that-does-not-fit-the-ensemble-is-refused", err != nil)
	check := func(md model.ShardMetadata) {
		vAssert("ensemble-keeps-rf-servers", len(md.Ensemble) == 3)
		for i := range md.Ensemble {
			for j := 0; j < i; j++ {
				vAssert("ensemble-servers-distinct", md.Ensemble[i].Internal != md.Ensemble[j].Internal)
			}
		}
	}
	check(s.shardMetadata)
	for _, md := range st.stored {
		check(md)
	}
	vAssert("nothing-marked-as-removed", len(s.shardMetadata.RemovedNodes) == 0)
	vAssert("no-election-for-a-refused-request", s.shardMetadata.Term == 4 && len(trace) == 0)
	vReach("end")
}
