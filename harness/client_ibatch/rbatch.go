package batch

import (
	"context"
	"errors"
	"io"
	"time"

	"go.opentelemetry.io/otel/metric/noop"
	"google.golang.org/grpc"
	"google.golang.org/grpc/codes"
	"google.golang.org/grpc/status"

	"github.com/oxia-db/oxia/oxia/internal/metrics"
	"github.com/oxia-db/oxia/oxia/internal/model"
	"github.com/oxia-db/oxia/proto"
)

// zzReadStream plays the server side of one Read attempt: it delivers the answers of gets [0,upto) in
// chunks of `chunk`, then ends with `end` (io.EOF for a complete answer).
type zzReadStream struct {
	grpc.ClientStream
	req   *proto.ReadRequest
	next  int
	upto  int
	chunk int
	end   error
}

func (s *zzReadStream) Recv() (*proto.ReadResponse, error) {
	if s.next >= s.upto {
		return nil, s.end
	}
	r := &proto.ReadResponse{}
	for n := 0; n < s.chunk && s.next < s.upto; n++ {
		k := s.req.Gets[s.next].Key
		r.Gets = append(r.Gets, &proto.GetResponse{Status: proto.Status_OK, Key: &k, Value: []byte(k), Version: &proto.Version{VersionId: int64(100 + s.next)}})
		s.next++
	}
	return r, nil
}

// ZZReadBatch (C20): the real readBatch (Add / Complete -> doRequestWithRetries -> doRequest -> handle or
// Fail) with ng gets. Attempt 1 streams `pre` answers (one per chunk) and then, by `fail`: 0 = streams the
// rest and EOF; 1 = a retriable Unavailable, after which attempt 2 streams everything in chunks of `chunk`;
// 2 = a permanent error; 3 = execute itself fails retriably once. Every callback fires exactly once, with
// the answer to ITS OWN key, or with the batch error.
func ZZReadBatch(ng, pre, chunk, fail int) {
	vAssume(pre <= ng && chunk >= 1)
	shard := int64(1)
	attempts := 0
	exec := func(_ context.Context, r *proto.ReadRequest) (proto.OxiaClient_ReadClient, error) {
		attempts++
		if attempts == 1 {
			switch fail {
			case 1:
				return &zzReadStream{req: r, upto: pre, chunk: 1, end: status.Error(codes.Unavailable, "zz: connection lost")}, nil
			case 2:
				return &zzReadStream{req: r, upto: pre, chunk: 1, end: errors.New("zz: permanent failure")}, nil
			case 3:
				return nil, status.Error(codes.Unavailable, "zz: cannot connect")
			}
		}
		return &zzReadStream{req: r, upto: len(r.Gets), chunk: chunk, end: io.EOF}, nil
	}
	f := readBatchFactory{namespace: "zz", execute: exec, metrics: metrics.NewMetrics(noop.NewMeterProvider()), requestTimeout: 30 * time.Second}
	b := f.newBatch(&shard).(*readBatch)
	keys := []string{"/a", "/b", "/c", "/d", "/e"}
	calls := make([]int, ng)
	gotErr := make([]bool, ng)
	gotKey := make([]string, ng)
	gotVer := make([]int64, ng)
	for i := 0; i < ng; i++ {
		i := i
		c := model.GetCall{Key: keys[i], Callback: func(r *proto.GetResponse, err error) {
			calls[i]++
			gotErr[i] = err != nil
			if r != nil {
				gotKey[i] = string(r.Value)
				gotVer[i] = r.Version.VersionId
			}
		}}
		vAssert("can-add", b.CanAdd(c))
		b.Add(c)
	}
	vAssert("size", b.Size() == ng)
	b.Complete()
	for i := 0; i < ng; i++ {
		vAssert("get-callback-exactly-once", calls[i] == 1)
		if fail == 2 {
			vAssert("get-gets-the-batch-error", gotErr[i])
		} else {
			vAssert("get-completes-without-error", !gotErr[i])
			vAssert("get-gets-its-own-answer", gotKey[i] == keys[i] && gotVer[i] == int64(100+i))
		}
	}
	if fail == 1 || fail == 3 {
		vAssert("retried-once", attempts == 2)
	} else {
		vAssert("single-attempt", attempts == 1)
	}
	vReach("end")
}
