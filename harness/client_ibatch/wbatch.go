package batch

import (
	"context"
	"errors"
	"time"

	"go.opentelemetry.io/otel/metric/noop"

	"github.com/oxia-db/oxia/oxia/internal/metrics"
	"github.com/oxia-db/oxia/oxia/internal/model"
	"github.com/oxia-db/oxia/proto"
)

// ZZWriteBatch (C20): the real writeBatch (CanAdd / Add / Size / Complete -> doRequestWithRetries ->
// handle or Fail) with np puts, nd deletes and nr delete-ranges whose callbacks record what they get.
// The executor answers once: with a response carrying a distinguishable status per position, or with a
// permanent error. Every callback fires exactly once, with the response at ITS OWN position of ITS OWN
// kind, or with the batch error.
func ZZWriteBatch(np, nd, nr, fail int) {
	shard := int64(1)
	var sent *proto.WriteRequest
	exec := func(_ context.Context, r *proto.WriteRequest) (*proto.WriteResponse, error) {
		sent = r
		if fail == 1 {
			return nil, errors.New("zz: permanent failure")
		}
		resp := &proto.WriteResponse{}
		for i := range r.Puts {
			resp.Puts = append(resp.Puts, &proto.PutResponse{Status: proto.Status_OK, Version: &proto.Version{VersionId: int64(100 + i)}})
		}
		for i := range r.Deletes {
			st := proto.Status_OK
			if i%2 == 1 {
				st = proto.Status_KEY_NOT_FOUND
			}
			resp.Deletes = append(resp.Deletes, &proto.DeleteResponse{Status: st})
		}
		for range r.DeleteRanges {
			resp.DeleteRanges = append(resp.DeleteRanges, &proto.DeleteRangeResponse{Status: proto.Status_OK})
		}
		return resp, nil
	}
	f := &writeBatchFactory{namespace: "zz", execute: exec, metrics: metrics.NewMetrics(noop.NewMeterProvider()), requestTimeout: time.Second, maxByteSize: 1 << 20}
	b := f.newBatch(&shard).(*writeBatch)
	putCalls := make([]int, np)
	putVer := make([]int64, np)
	putErr := make([]bool, np)
	delCalls := make([]int, nd)
	delSt := make([]proto.Status, nd)
	delErr := make([]bool, nd)
	rngCalls := make([]int, nr)
	keys := []string{"k0", "k1", "k2", "k3"}
	for i := 0; i < np; i++ {
		i := i
		c := model.PutCall{Key: keys[i], Value: []byte{byte(i)}, Callback: func(r *proto.PutResponse, err error) {
			putCalls[i]++
			putErr[i] = err != nil
			if r != nil {
				putVer[i] = r.Version.VersionId
			}
		}}
		vAssert("can-add", b.CanAdd(c))
		b.Add(c)
	}
	for i := 0; i < nd; i++ {
		i := i
		b.Add(model.DeleteCall{Key: keys[i], Callback: func(r *proto.DeleteResponse, err error) {
			delCalls[i]++
			delErr[i] = err != nil
			if r != nil {
				delSt[i] = r.Status
			}
		}})
	}
	for i := 0; i < nr; i++ {
		i := i
		b.Add(model.DeleteRangeCall{MinKeyInclusive: "a", MaxKeyExclusive: "b", Callback: func(r *proto.DeleteRangeResponse, err error) { rngCalls[i]++ }})
	}
	vAssert("size", b.Size() == np+nd+nr)
	b.Complete()
	if np+nd+nr > 0 {
		vAssert("request-sent-once-with-all-operations", sent != nil && len(sent.Puts) == np && len(sent.Deletes) == nd && len(sent.DeleteRanges) == nr)
		for i := 0; i < np; i++ {
			vAssert("request-keeps-submission-order", sent.Puts[i].Key == keys[i])
		}
	}
	for i := 0; i < np; i++ {
		vAssert("put-callback-exactly-once", putCalls[i] == 1)
		if fail == 1 {
			vAssert("put-gets-the-batch-error", putErr[i])
		} else {
			vAssert("put-gets-its-own-response", !putErr[i] && putVer[i] == int64(100+i))
		}
	}
	for i := 0; i < nd; i++ {
		vAssert("delete-callback-exactly-once", delCalls[i] == 1)
		if fail == 0 {
			want := proto.Status_OK
			if i%2 == 1 {
				want = proto.Status_KEY_NOT_FOUND
			}
			vAssert("delete-gets-its-own-response", !delErr[i] && delSt[i] == want)
		}
	}
	for i := 0; i < nr; i++ {
		vAssert("range-callback-exactly-once", rngCalls[i] == 1)
	}
	// size limit: a call that does not fit is refused by CanAdd
	small := &writeBatchFactory{metrics: f.metrics, maxByteSize: 3}
	sb := small.newBatch(&shard)
	vAssert("fits", sb.CanAdd(model.PutCall{Key: "ab", Value: []byte{1}}))
	sb.Add(model.PutCall{Key: "ab", Value: []byte{1}, Callback: func(*proto.PutResponse, error) {}})
	vAssert("does-not-fit", !sb.CanAdd(model.DeleteCall{Key: "x"}))
	vReach("end")
}
