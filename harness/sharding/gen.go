package sharding

import "math"

// ZZGenerate: the real GenerateShards(base, n) partitions the 32-bit hash space for every base id,
// and a symbolic hash falls into exactly one shard.
func ZZGenerate(n int) {
	base := vInt64("base")
	vAssume(base >= 0)
	vAssume(base < math.MaxInt64-100000)
	shards := GenerateShards(base, uint32(n))
	vAssert("count", len(shards) == n)
	h := vUint32("hash")
	owners := 0
	for i, s := range shards {
		vAssert("id", s.Id == base+int64(i))
		vAssert("min<=max", s.Min <= s.Max)
		if i == 0 {
			vAssert("starts-at-0", s.Min == 0)
		} else {
			vAssert("contiguous", s.Min == shards[i-1].Max+1)
			vAssert("no-wrap", shards[i-1].Max != math.MaxUint32)
		}
		if i == n-1 {
			vAssert("ends-at-max", s.Max == math.MaxUint32)
		}
		if s.Min <= h {
			if h <= s.Max {
				owners++
			}
		}
	}
	vObserve("owners", int64(owners))
	vAssert("exactly-one-owner", owners == 1)
	vReach("end")
}
