package ensemble

import (
	"github.com/emirpasic/gods/v2/sets/linkedhashset"

	"github.com/oxia-db/oxia/coordinator/model"
	p "github.com/oxia-db/oxia/coordinator/policies"
)

var zzNames = []string{"s0", "s1", "s2", "s3", "s4"}

// ZZEnsemble (C19): the real ensemble selector chain (anti-affinity -> lowest load -> final) over n
// servers whose zone / rack labels are symbolic 1-byte strings (any equality pattern) with policy
// kind 0 none, 1 [zone], 2 [zone] then [rack] (two rules), 3 one rule over [zone, rack]; RF and the
// tie-breaking index symbolic. Either the selection is refused, or it returns RF distinct servers of
// the cluster whose values differ pairwise for every label of every strict rule.
func ZZEnsemble(n, rf, policy int) {
	cands := linkedhashset.New[string]()
	meta := map[string]model.ServerMetadata{}
	zone := vBytes("zone", n)
	rack := vBytes("rack", n)
	for i := 0; i < n; i++ {
		cands.Add(zzNames[i])
		meta[zzNames[i]] = model.ServerMetadata{Labels: map[string]string{"zone": string(zone[i : i+1]), "rack": string(rack[i : i+1])}}
	}
	var pol *p.Policies
	switch policy {
	case 1:
		pol = &p.Policies{AntiAffinities: []p.AntiAffinity{{Labels: []string{"zone"}, Mode: p.Strict}}}
	case 2:
		pol = &p.Policies{AntiAffinities: []p.AntiAffinity{{Labels: []string{"zone"}, Mode: p.Strict}, {Labels: []string{"rack"}, Mode: p.Strict}}}
	case 3:
		pol = &p.Policies{AntiAffinities: []p.AntiAffinity{{Labels: []string{"zone", "rack"}, Mode: p.Strict}}}
	}
	idx := vUint32("serverIdx")
	vAssume(idx < 8)
	ctx := &Context{Candidates: cands, CandidatesMetadata: meta, Policies: pol,
		Status:   &model.ClusterStatus{Namespaces: map[string]model.NamespaceStatus{}, ServerIdx: idx},
		Replicas: rf, LoadRatioSupplier: func() *model.Ratio { return nil }}
	esm, err := NewSelector().Select(ctx)
	if err != nil {
		vReach("refused")
		vReach("end")
		return
	}
	vReach("selected")
	vAssert("exactly-rf-servers", len(esm) == rf)
	pick := make([]int, len(esm))
	for k, s := range esm {
		pick[k] = -1
		for i := 0; i < n; i++ {
			if zzNames[i] == s {
				pick[k] = i
			}
		}
		vAssert("server-of-the-cluster", pick[k] >= 0)
		for j := 0; j < k; j++ {
			vAssert("distinct-servers", pick[j] != pick[k])
			if pick[j] >= 0 && pick[k] >= 0 {
				if policy >= 1 {
					if vKnown("KF-C19-multi-label-rule-is-a-union", policy == 3 && zone[pick[j]] == zone[pick[k]]) {
						vAssert("zone-anti-affinity", zone[pick[j]] != zone[pick[k]])
					} else {
						vAssert("zone-anti-affinity", zone[pick[j]] != zone[pick[k]])
					}
				}
				if policy >= 2 {
					if vKnown("KF-C19-multi-label-rule-is-a-union", policy == 3 && rack[pick[j]] == rack[pick[k]]) {
						vAssert("rack-anti-affinity", rack[pick[j]] != rack[pick[k]])
					} else {
						vAssert("rack-anti-affinity", rack[pick[j]] != rack[pick[k]])
					}
				}
			}
		}
	}
	vReach("end")
}
