package codec

// ---- C10: header validation, index recovery and write/crash/recover round trips on symbolic buffers.

// ZZV2Header: arbitrary buffer content and arbitrary start offset never panic; success implies a
// well-formed, in-bounds record.
func ZZV2Header(n int) {
	buf := vBytes("buf", n)
	off := vUint32("off")
	size, _, _, err := v2.ReadHeaderWithValidation(buf, off)
	if err == nil {
		vReach("ok")
		vAssert("size>0", size > 0)
		vAssert("fits", uint64(off)+12+uint64(size) <= uint64(n))
		p, err2 := v2.ReadRecordWithValidation(buf, off)
		vAssert("record-read-ok", err2 == nil)
		vAssert("record-len", uint32(len(p)) == size)
		rs, err3 := v2.GetRecordSize(buf, off)
		vAssert("record-size", err3 == nil && rs == size+12)
	}
	vReach("end")
}

func ZZV1Header(n int) {
	buf := vBytes("buf", n)
	off := vUint32("off")
	size, _, _, err := v1.ReadHeaderWithValidation(buf, off)
	if err == nil {
		vReach("ok")
		vAssert("size>0", size > 0)
		vAssert("fits", uint64(off)+4+uint64(size) <= uint64(n))
		p, err2 := v1.ReadRecordWithValidation(buf, off)
		vAssert("record-read-ok", err2 == nil)
		vAssert("record-len", uint32(len(p)) == size)
	}
	vReach("end")
}

func zzCheckIndex(c Codec, buf []byte, n int, base int64, idx []byte, newOff uint32, last int64) {
	vAssert("newOff<=n", int(newOff) <= n)
	vAssert("index-multiple-of-4", len(idx)%4 == 0)
	vAssert("last-entry", int64(len(idx)/4) == last-base+1)
	prevEnd := uint32(0)
	for i := 0; i+4 <= len(idx); i += 4 {
		o := ReadInt(idx, uint32(i))
		vAssert("index-contiguous", o == prevEnd)
		rs, err := c.GetRecordSize(buf, o)
		vAssert("indexed-record-validates", err == nil)
		prevEnd = o + rs
	}
	vAssert("newOff-is-end-of-last", newOff == prevEnd)
}

// zzWalk re-derives, with the real per-record validation only, how many records form the valid prefix
// and why it ends: 0 = clean end (no room for a header, or an empty size field), 1 = damaged record.
func zzWalk(c Codec, buf []byte, n int, hdr uint32) (k int64, damaged bool) {
	off := uint32(0)
	for off+hdr <= uint32(n) {
		rs, err := c.GetRecordSize(buf, off)
		if err != nil {
			if ReadInt(buf, off) == 0 {
				return k, false
			}
			return k, true
		}
		off += rs
		k++
	}
	return k, false
}

// ZZV2Recover: RecoverIndex over an arbitrary buffer. commitKind 0: nil commit offset, 1: symbolic.
func ZZV2Recover(n, commitKind int) {
	buf := vBytes("buf", n)
	base := vInt64("base")
	vAssume(base >= 0)
	vAssume(base < 1000000)
	var cp *int64
	var commit int64
	if commitKind == 1 {
		commit = vInt64("commit")
		cp = &commit
	}
	k, damaged := zzWalk(v2, buf, n, 12)
	idx, _, newOff, last, err := v2.RecoverIndex(buf, 0, base, cp)
	mustFail := false
	if damaged {
		if cp == nil {
			mustFail = true
		} else if base+k <= commit {
			mustFail = true
		}
	}
	if err == nil {
		vReach("ok")
		vObserve("last", last)
		vObserve("newOff", int64(newOff))
		vAssert("committed-damage-is-reported", !mustFail)
		vAssert("valid-prefix-kept-exactly", last == base+k-1)
		zzCheckIndex(v2, buf, n, base, idx, newOff, last)
	} else {
		vReach("err")
		vAssert("uncommitted-damage-is-discarded-not-failed", mustFail)
	}
	vReach("end")
}

func ZZV1Recover(n int) {
	buf := vBytes("buf", n)
	base := vInt64("base")
	vAssume(base >= 0)
	vAssume(base < 1000000)
	idx, _, newOff, last, err := v1.RecoverIndex(buf, 0, base, nil)
	if err == nil {
		vReach("ok")
		vObserve("last", last)
		k, _ := zzWalk(v1, buf, n, 4)
		vAssert("valid-prefix-kept-exactly", last == base+k-1)
		zzCheckIndex(v1, buf, n, base, idx, newOff, last)
	}
	vReach("end")
}

func zzSame(a, b []byte) bool {
	if len(a) != len(b) {
		return false
	}
	for i := range a {
		if a[i] != b[i] {
			return false
		}
	}
	return true
}

// ZZV2Crash: write two records; the first is synced and committed, everything after it (the second
// record and the rest of the buffer) is replaced by arbitrary bytes = any subset of unsynced pages
// persisted / torn / zeroed / random. Recovery must succeed, return record 0 bit-identical, and every
// further indexed record must validate.
func ZZV2Crash(l1, l2, tail int) {
	p1 := vBytes("p1", l1)
	p2 := vBytes("p2", l2)
	n := 12 + l1 + 12 + l2 + tail
	buf := make([]byte, n)
	prev := vUint32("prevCrc")
	s1, crc1 := v2.WriteRecord(buf, 0, prev, p1)
	vAssert("rec1-size", int(s1) == 12+l1)
	s2, _ := v2.WriteRecord(buf, s1, crc1, p2)
	vAssert("rec2-size", int(s2) == 12+l2)
	garbage := vBytes("garbage", n-int(s1))
	damaged := vBool("damaged")
	if damaged {
		copy(buf[s1:], garbage)
	}
	commit := int64(0)
	idx, lastCrc, newOff, last, err := v2.RecoverIndex(buf, 0, 0, &commit)
	vAssert("recovery-succeeds", err == nil)
	vAssert("keeps-synced", last >= 0)
	zzCheckIndex(v2, buf, n, 0, idx, newOff, last)
	r1, err1 := v2.ReadRecordWithValidation(buf, ReadInt(idx, 0))
	vAssert("rec1-readable", err1 == nil)
	vAssert("rec1-identical", zzSame(r1, p1))
	if !damaged {
		vReach("clean")
		vAssert("clean-has-both", last == 1)
		r2, err2 := v2.ReadRecordWithValidation(buf, ReadInt(idx, 4))
		vAssert("rec2-readable", err2 == nil)
		vAssert("rec2-identical", zzSame(r2, p2))
		_ = lastCrc
	}
	vReach("end")
}

// ZZV2Committed: damage inside the committed record must be reported as an error (CRC mismatch),
// unless the damaged record still carries a matching checksum (collision, allowed).
func ZZV2Committed(l1 int) {
	p1 := vBytes("p1", l1)
	n := 12 + l1 + 8
	buf := make([]byte, n)
	s1, _ := v2.WriteRecord(buf, 0, 0, p1)
	pos := vChoice("pos", int(s1))
	val := vByte("val")
	vAssume(val != buf[pos])
	buf[pos] = val
	commit := int64(0)
	_, _, _, last, err := v2.RecoverIndex(buf, 0, 0, &commit)
	if err == nil {
		if last >= 0 {
			// accepted: only possible if the stored checksum matches the (changed) content
			vReach("collision-accepted")
		} else if vKnown("KF-C10-zeroed-size", ReadInt(buf, 0) == 0) {
			// known finding: a size field that reads zero is taken for the clean end of the log
			vAssert("committed-damage-is-an-error", false)
		} else {
			// a committed entry silently vanished
			vAssert("committed-damage-is-an-error", false)
		}
	} else {
		vReach("reported")
	}
	vReach("end")
}
