package batch

import (
	"time"
)

type zzBatch struct {
	rec   *zzRec
	calls []int
	max   int
}

type zzRec struct {
	completed [][]int
	failed    [][]int
	sig       chan int
}

func (b *zzBatch) CanAdd(any) bool { return len(b.calls) < b.max }
func (b *zzBatch) Add(c any)       { b.calls = append(b.calls, c.(int)) }
func (b *zzBatch) Size() int       { return len(b.calls) }
func (b *zzBatch) Complete() {
	b.rec.completed = append(b.rec.completed, b.calls)
	b.rec.sig <- len(b.calls)
}
func (b *zzBatch) Fail(error)      { b.rec.failed = append(b.rec.failed, b.calls) }

// ZZBatcher (C20): the real batcherImpl.Run / Add / Close as goroutines with a recording batch factory:
// every submitted call lands in exactly one batch that is completed or failed exactly once, batches
// respect the size limit and submission order, nothing is lost when Close races with the producer, and
// a producer that waits (linger > 0) sees every call flushed — no batch is left without a timer.
func ZZBatcher(n, maxPer, linger, closeAfter int) {
	rec := &zzRec{sig: make(chan int, 16)}
	b := &batcherImpl{
		batchFactory:        func() Batch { return &zzBatch{rec: rec, max: 2} },
		callC:               make(chan any, 2),
		closeC:              make(chan bool),
		linger:              time.Duration(linger) * time.Millisecond,
		maxRequestsPerBatch: maxPer,
	}
	done := make(chan bool, 1)
	vGo("run", func() { b.Run(); done <- true })
	for i := 0; i < n; i++ {
		if i == closeAfter {
			_ = b.Close()
		}
		b.Add(i)
	}
	if closeAfter >= n {
		if linger > 0 {
			// a patient producer: with a linger timer every submitted call is flushed without further traffic —
			// by the size limit, by a split, or by the timer of the batch it sits in
			for flushed := 0; flushed < n; {
				flushed += <-rec.sig
			}
			vAssert("nothing-failed-for-a-patient-producer", len(rec.failed) == 0)
		}
		_ = b.Close()
	}
	<-done
	seen := make([]int, n)
	for _, batch := range rec.completed {
		vAssert("batch-within-limit", len(batch) <= maxPer && len(batch) <= 2 && len(batch) > 0)
		for j, c := range batch {
			seen[c]++
			if j > 0 {
				vAssert("submission-order-kept", batch[j-1] < c)
			}
			vAssert("nothing-completed-after-close", c < closeAfter || closeAfter >= n)
		}
	}
	for _, batch := range rec.failed {
		for _, c := range batch {
			seen[c]++
		}
	}
	for i := 0; i < n; i++ {
		vAssert("each-call-finished-exactly-once", seen[i] == 1)
	}
	vReach("end")
}
