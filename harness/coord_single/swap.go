package single

import (
	"github.com/emirpasic/gods/v2/sets/linkedhashset"

	"github.com/oxia-db/oxia/coordinator/model"
	p "github.com/oxia-db/oxia/coordinator/policies"
)

var zzNames = []string{"s0", "s1", "s2", "s3", "s4"}

// ZZSwapTarget (C19): the replica-move path. The context is prepared exactly as balancer.swapShard
// does (selected = ensemble minus the node being vacated, SetSelected, same candidates and policies)
// and the REAL single-server selector chain picks the target, for an ensemble {s0,s1,s2} of an
// n-server cluster with symbolic zone labels and tie-break index. The target is never a remaining
// member of the ensemble, is a server of the cluster, and (strict zone rule) its zone differs from the
// zones of the remaining members.
func ZZSwapTarget(n, from, policy int) {
	cands := linkedhashset.New[string]()
	meta := map[string]model.ServerMetadata{}
	zone := vBytes("zone", n)
	for i := 0; i < n; i++ {
		cands.Add(zzNames[i])
		meta[zzNames[i]] = model.ServerMetadata{Labels: map[string]string{"zone": string(zone[i : i+1])}}
	}
	// the current ensemble satisfies the rule
	if policy == 1 {
		vAssume(zone[0] != zone[1])
		vAssume(zone[0] != zone[2])
		vAssume(zone[1] != zone[2])
	}
	var pol *p.Policies
	if policy == 1 {
		pol = &p.Policies{AntiAffinities: []p.AntiAffinity{{Labels: []string{"zone"}, Mode: p.Strict}}}
	}
	idx := vUint32("serverIdx")
	vAssume(idx < 8)
	sContext := &Context{Candidates: cands, CandidatesMetadata: meta, Policies: pol,
		Status:            &model.ClusterStatus{Namespaces: map[string]model.NamespaceStatus{}, ServerIdx: idx},
		LoadRatioSupplier: func() *model.Ratio { return nil }}
	selected := linkedhashset.New[string]()
	for i := 0; i < 3; i++ {
		if i != from {
			selected.Add(zzNames[i])
		}
	}
	sContext.SetSelected(selected)
	target, err := NewSelector().Select(sContext)
	if err != nil {
		vReach("refused")
		vReach("end")
		return
	}
	ti := -1
	for i := 0; i < n; i++ {
		if zzNames[i] == target {
			ti = i
		}
	}
	vAssert("target-is-a-server-of-the-cluster", ti >= 0)
	for i := 0; i < 3; i++ {
		if i != from {
			vAssert("target-not-already-in-ensemble", ti != i)
			if policy == 1 && ti >= 0 {
				vAssert("target-zone-differs-from-remaining-members", zone[ti] != zone[i])
			}
		}
	}
	vReach("end")
}
