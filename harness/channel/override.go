package channel

import "context"

// ZZOverrideLatest (C16 "a subscriber always eventually observes the latest generated key"): the latest-value channel
// the sequence wait tracker hands to a subscriber. A writer publishes k increasing values with WriteLast while a
// reader goroutine receives; every non-blocking select of the channel code is a preemption point, so the reader can
// take the pending value between WriteLast's two polls. However the two interleave, once the writer is done the
// LAST value it wrote has either been received already or is still pending for the reader: a slow reader may skip
// intermediate values, never the latest; values never go backwards.
func ZZOverrideLatest(k int) {
	oc := NewOverrideChannel[int]()
	got := make(chan int, 8)
	stop := make(chan struct{})
	done := make(chan bool, 1)
	vGo("reader", func() {
		for {
			select {
			case v := <-oc.Ch():
				got <- v
			case <-stop:
				done <- true
				return
			}
		}
	})
	for i := 1; i <= k; i++ {
		oc.WriteLast(i)
		vYield("writer-publishes")
	}
	// let the reader take whatever is pending, then stop it
	last := 0
	for n := 0; n < 8 && last != k; n++ {
		select {
		case v := <-got:
			vAssert("values-never-go-backwards", v > last)
			last = v
		default:
			select {
			case v := <-oc.Ch(): // still pending: the reader would get it
				vAssert("values-never-go-backwards", v > last)
				last = v
			default:
				vYield("reader-catches-up")
				vSettle(2)
			}
		}
	}
	close(stop)
	<-done
	for last != k {
		select {
		case v := <-got:
			vAssert("values-never-go-backwards", v > last)
			last = v
		default:
			vAssert("the-latest-value-reaches-the-reader", false)
			last = k
		}
	}
	vAssert("the-latest-value-reaches-the-reader", last == k)
	_ = context.Background()
	vReach("end")
}
