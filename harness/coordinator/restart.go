package coordinator

import (
	"context"
	"errors"
	"io"

	"google.golang.org/grpc"
	"google.golang.org/grpc/health/grpc_health_v1"

	"github.com/oxia-db/oxia/coordinator/metadata"
	"github.com/oxia-db/oxia/coordinator/model"
	"github.com/oxia-db/oxia/proto"
)

// zzDownRpc: every storage node is unreachable (only matters for the native replay, where the controllers'
// goroutines do run: their elections and health checks fail and retry in the background).
type zzDownRpc struct{}

var errZZDown = errors.New("zz: node unreachable")

func (zzDownRpc) PushShardAssignments(context.Context, model.Server) (proto.OxiaCoordination_PushShardAssignmentsClient, error) {
	return nil, errZZDown
}
func (zzDownRpc) NewTerm(context.Context, model.Server, *proto.NewTermRequest) (*proto.NewTermResponse, error) {
	return nil, errZZDown
}
func (zzDownRpc) BecomeLeader(context.Context, model.Server, *proto.BecomeLeaderRequest) (*proto.BecomeLeaderResponse, error) {
	return nil, errZZDown
}
func (zzDownRpc) AddFollower(context.Context, model.Server, *proto.AddFollowerRequest) (*proto.AddFollowerResponse, error) {
	return nil, errZZDown
}
func (zzDownRpc) GetStatus(context.Context, model.Server, *proto.GetStatusRequest) (*proto.GetStatusResponse, error) {
	return nil, errZZDown
}
func (zzDownRpc) DeleteShard(context.Context, model.Server, *proto.DeleteShardRequest) (*proto.DeleteShardResponse, error) {
	return nil, errZZDown
}
func (zzDownRpc) GetHealthClient(model.Server) (grpc_health_v1.HealthClient, io.Closer, error) {
	return zzHealth{}, zzCloser{}, nil
}

// the health service answers (so that a coordinator that waits for its nodes gets on); everything else is down
type zzCloser struct{}

func (zzCloser) Close() error { return nil }

type zzHealth struct{}

func (zzHealth) Check(context.Context, *grpc_health_v1.HealthCheckRequest, ...grpc.CallOption) (*grpc_health_v1.HealthCheckResponse, error) {
	return &grpc_health_v1.HealthCheckResponse{Status: grpc_health_v1.HealthCheckResponse_SERVING}, nil
}
func (zzHealth) List(context.Context, *grpc_health_v1.HealthListRequest, ...grpc.CallOption) (*grpc_health_v1.HealthListResponse, error) {
	return nil, errZZDown
}
func (zzHealth) Watch(ctx context.Context, _ *grpc_health_v1.HealthCheckRequest, _ ...grpc.CallOption) (grpc.ServerStreamingClient[grpc_health_v1.HealthCheckResponse], error) {
	return &zzWatch{ctx: ctx}, nil
}

type zzWatch struct {
	grpc.ClientStream
	ctx  context.Context
	sent bool
}

func (w *zzWatch) Recv() (*grpc_health_v1.HealthCheckResponse, error) {
	if !w.sent {
		w.sent = true
		return &grpc_health_v1.HealthCheckResponse{Status: grpc_health_v1.HealthCheckResponse_SERVING}, nil
	}
	<-w.ctx.Done()
	return nil, w.ctx.Err()
}
func (zzDownRpc) ClearPooledConnections(model.Server) {}

func zzServers(n int) []model.Server {
	names := []string{"s0", "s1", "s2", "s3"}
	var r []model.Server
	for i := 0; i < n; i++ {
		r = append(r, model.Server{Public: names[i], Internal: names[i]})
	}
	return r
}

// ZZCoordinatorRestart (C18): the real NewCoordinator (status resource, config resource, ApplyClusterChanges,
// ensemble selection, controller construction — the controllers' goroutines are not started) on a metadata
// store that holds what an earlier coordinator left behind: `old` namespaces' worth of history summarised
// by a symbolic shard-id generator g, and — keep = 1 — one surviving namespace "keep" whose two shards own
// ids below g. The new configuration asks for namespace "new" with n shards (and "keep" iff it survives).
// Whatever g is: ids already handed out are never issued again (every new shard id >= g), the generator
// only grows, surviving shards keep id and range, the new namespace's ranges partition the hash space, and
// what is persisted is what the coordinator works with.
func ZZCoordinatorRestart(n, keep, fresh int) {
	meta := metadata.NewMetadataProviderMemory()
	g := vInt64("generator")
	vAssume(g >= 0)
	vAssume(g < 1000000)
	if fresh == 0 {
		st := &model.ClusterStatus{Namespaces: map[string]model.NamespaceStatus{}, ShardIdGenerator: g, ServerIdx: 1}
		if keep == 1 {
			vAssume(g >= 2)
			st.Namespaces["keep"] = model.NamespaceStatus{ReplicationFactor: 1, Shards: map[int64]model.ShardMetadata{
				g - 2: {Status: model.ShardStatusSteadyState, Term: 3, Ensemble: zzServers(1), Int32HashRange: model.Int32HashRange{Min: 0, Max: 2147483647}},
				g - 1: {Status: model.ShardStatusSteadyState, Term: 3, Ensemble: zzServers(1), Int32HashRange: model.Int32HashRange{Min: 2147483648, Max: 4294967295}},
			}}
		}
		_, err := meta.Store(st, metadata.NotExists)
		vAssert("stored", err == nil)
	} else {
		vAssume(g == 0)
	}
	cfg := model.ClusterConfig{Servers: zzServers(3), Namespaces: []model.NamespaceConfig{{Name: "new", InitialShardCount: uint32(n), ReplicationFactor: 1}}}
	if keep == 1 {
		cfg.Namespaces = append(cfg.Namespaces, model.NamespaceConfig{Name: "keep", InitialShardCount: 2, ReplicationFactor: 1})
	}
	ch := make(chan any)
	ci, err := NewCoordinator(meta, func() (model.ClusterConfig, error) { return cfg, nil }, ch, zzDownRpc{})
	vAssert("coordinator-started", err == nil)
	if err != nil {
		return
	}
	c := ci.(*coordinator)
	persisted, _, _ := meta.Get()
	persisted = persisted.Clone()
	vAssert("status-persisted", persisted != nil)
	vAssert("generator-only-grows", persisted.ShardIdGenerator >= g)
	vAssert("generator-covers-the-new-shards", persisted.ShardIdGenerator == g+int64(n))
	ns, ok := persisted.Namespaces["new"]
	vAssert("namespace-created", ok && len(ns.Shards) == n)
	covered := uint64(0)
	for id, sm := range ns.Shards {
		vAssert("shard-id-never-reused", id >= g && id < g+int64(n))
		vAssert("range-well-formed", sm.Int32HashRange.Min <= sm.Int32HashRange.Max)
		covered += uint64(sm.Int32HashRange.Max) - uint64(sm.Int32HashRange.Min) + 1
		for id2, sm2 := range ns.Shards {
			if id != id2 {
				vAssert("ranges-disjoint", sm.Int32HashRange.Max < sm2.Int32HashRange.Min || sm2.Int32HashRange.Max < sm.Int32HashRange.Min)
			}
		}
		_, has := c.shardControllers[id]
		vAssert("controller-for-every-new-shard", has)
	}
	vAssert("ranges-cover-the-hash-space", n == 0 || covered == 1<<32)
	if keep == 1 {
		k := persisted.Namespaces["keep"]
		vAssert("surviving-shards-keep-id-and-range", len(k.Shards) == 2 && k.Shards[g-2].Int32HashRange.Max == 2147483647 && k.Shards[g-1].Int32HashRange.Min == 2147483648)
	}
	vReach("end")
}
