package coordinator

import (
	"context"
	"errors"
	"io"

	"google.golang.org/grpc"
	"google.golang.org/grpc/health/grpc_health_v1"

	"github.com/oxia-db/oxia/coordinator/metadata"
	"github.com/oxia-db/oxia/coordinator/model"
	"github.com/oxia-db/oxia/proto"
)

// zzDownRpc: every storage node is unreachable (only matters for the native replay, where the controllers'
// goroutines do run: their elections and health checks fail and retry in the background).
type zzDownRpc struct{}

var errZZDown = errors.New("zz: node unreachable")

func (zzDownRpc) PushShardAssignments(context.Context, model.Server) (proto.OxiaCoordination_PushShardAssignmentsClient, error) {
	return nil, errZZDown
}
func (zzDownRpc) NewTerm(context.Context, model.Server, *proto.NewTermRequest) (*proto.NewTermResponse, error) {
	return nil, errZZDown
}
func (zzDownRpc) BecomeLeader(context.Context, model.Server, *proto.BecomeLeaderRequest) (*proto.BecomeLeaderResponse, error) {
	return nil, errZZDown
}
func (zzDownRpc) AddFollower(context.Context, model.Server, *proto.AddFollowerRequest) (*proto.AddFollowerResponse, error) {
	return nil, errZZDown
}
func (zzDownRpc) GetStatus(context.Context, model.Server, *proto.GetStatusRequest) (*proto.GetStatusResponse, error) {
	return nil, errZZDown
}
func (zzDownRpc) DeleteShard(context.Context, model.Server, *proto.DeleteShardRequest) (*proto.DeleteShardResponse, error) {
	return nil, errZZDown
}
func (zzDownRpc) GetHealthClient(model.Server) (grpc_health_v1.HealthClient, io.Closer, error) {
	return zzHealth{}, zzCloser{}, nil
}

// the health service answers (so that a coordinator that waits for its nodes gets on); everything else is down
type zzCloser struct{}

func (zzCloser) Close() error { return nil }

type zzHealth struct{}

func (zzHealth) Check(context.Context, *grpc_health_v1.HealthCheckRequest, ...grpc.CallOption) (*grpc_health_v1.HealthCheckResponse, error) {
	return &grpc_health_v1.HealthCheckResponse{Status: grpc_health_v1.HealthCheckResponse_SERVING}, nil
}
func (zzHealth) List(context.Context, *grpc_health_v1.HealthListRequest, ...grpc.CallOption) (*grpc_health_v1.HealthListResponse, error) {
	return nil, errZZDown
}
func (zzHealth) Watch(ctx context.Context, _ *grpc_health_v1.HealthCheckRequest, _ ...grpc.CallOption) (grpc.ServerStreamingClient[grpc_health_v1.HealthCheckResponse], error) {
	return &zzWatch{ctx: ctx}, nil
}

type zzWatch struct {
	grpc.ClientStream
	ctx  context.Context
	sent bool
}

func (w *zzWatch) Recv() (*grpc_health_v1.HealthCheckResponse, error) {
	if !w.sent {
		w.sent = true
		return &grpc_health_v1.HealthCheckResponse{Status: grpc_health_v1.HealthCheckResponse_SERVING}, nil
	}
	<-w.ctx.Done()
	return nil, w.ctx.Err()
}
func (zzDownRpc) ClearPooledConnections(model.Server) {}

func zzServers(n int) []model.Server {
	names := []string{"s0", "s1", "s2", "s3"}
	var r []model.Server
	for i := 0; i < n; i++ {
		r = append(r, model.Server{Public: names[i], Internal: names[i]})
	}
	return r
}

// ZZCoordinatorRestart (C18): the real NewCoordinator (status resource, config resource, ApplyClusterChanges,
// ensemble selection, controller construction — the controllers' goroutines are not started) on a metadata
// store that holds what an earlier coordinator left behind: `old` namespaces' worth of history summarised
// by a symbolic shard-id generator g, and — keep = 1 — one surviving namespace "keep" whose two shards own
// ids below g. The new configuration asks for namespace "new" with n shards (and "keep" iff it survives).
// Whatever g is: ids already handed out are never issued again (every new shard id >= g), the generator
// only grows, surviving shards keep id and range, the new namespace's ranges partition the hash space, and
// what is persisted is what the coordinator works with.
func ZZCoordinatorRestart(n, keep, fresh int) {
	meta := metadata.NewMetadataProviderMemory()
	g := vInt64("generator")
	vAssume(g >= 0)
	vAssume(g < 1000000)
	if fresh == 0 {
		st := &model.ClusterStatus{Namespaces: map[string]model.NamespaceStatus{}, ShardIdGenerator: g, ServerIdx: 1}
		if keep == 1 {
			vAssume(g >= 2)
			st.Namespaces["keep"] = model.NamespaceStatus{ReplicationFactor: 1, Shards: map[int64]model.ShardMetadata{
				g - 2: {Status: model.ShardStatusSteadyState, Term: 3, Ensemble: zzServers(1), Int32HashRange: model.Int32HashRange{Min: 0, Max: 2147483647}},
				g - 1: {Status: model.ShardStatusSteadyState, Term: 3, Ensemble: zzServers(1), Int32HashRange: model.Int32HashRange{Min: 2147483648, Max: 4294967295}},
			}}
		}
		_, err := meta.Store(st, metadata.NotExists)
		vAssert("stored", err == nil)
	} else {
		vAssume(g == 0)
	}
	cfg := model.ClusterConfig{Servers: zzServers(3), Namespaces: []model.NamespaceConfig{{Name: "new", InitialShardCount: uint32(n), ReplicationFactor: 1}}}
	if keep == 1 {
		cfg.Namespaces = append(cfg.Namespaces, model.NamespaceConfig{Name: "keep", InitialShardCount: 2, ReplicationFactor: 1})
	}
	ch := make(chan any)
	ci, err := NewCoordinator(meta, func() (model.ClusterConfig, error) { return cfg, nil }, ch, zzDownRpc{})
	vAssert("coordinator-started", err == nil)
	if err != nil {
		return
	}
	c := ci.(*coordinator)
	persisted, _, _ := meta.Get()
	persisted = persisted.Clone()
	vAssert("status-persisted", persisted != nil)
	vAssert("generator-only-grows", persisted.ShardIdGenerator >= g)
	vAssert("generator-covers-the-new-shards", persisted.ShardIdGenerator == g+int64(n))
	ns, ok := persisted.Namespaces["new"]
	vAssert("namespace-created", ok && len(ns.Shards) == n)
	covered := uint64(0)
	for id, sm := range ns.Shards {
		vAssert("shard-id-never-reused", id >= g && id < g+int64(n))
		vAssert("range-well-formed", sm.Int32HashRange.Min <= sm.Int32HashRange.Max)
		covered += uint64(sm.Int32HashRange.Max) - uint64(sm.Int32HashRange.Min) + 1
		for id2, sm2 := range ns.Shards {
			if id != id2 {
				vAssert("ranges-disjoint", sm.Int32HashRange.Max < sm2.Int32HashRange.Min || sm2.Int32HashRange.Max < sm.Int32HashRange.Min)
			}
		}
		_, has := c.shardControllers[id]
		vAssert("controller-for-every-new-shard", has)
	}
	vAssert("ranges-cover-the-hash-space", n == 0 || covered == 1<<32)
	if keep == 1 {
		k := persisted.Namespaces["keep"]
		vAssert("surviving-shards-keep-id-and-range", len(k.Shards) == 2 && k.Shards[g-2].Int32HashRange.Max == 2147483647 && k.Shards[g-1].Int32HashRange.Min == 2147483648)
	}
	vReach("end")
}

// zzCheckAssignments: what the coordinator tells servers and clients (computeNewAssignments) agrees with the
// persisted status: per namespace exactly the shards that are not being deleted, each with its own id, hash
// range and leader, and the ranges of a namespace partition the 32-bit hash space.
func zzCheckAssignments(c *coordinator, st *model.ClusterStatus, tag string, skip string) {
	for name, ns := range st.Namespaces {
		if name == skip {
			continue
		}
		as, ok := c.assignments.Namespaces[name]
		vAssert(tag+":namespace-has-assignments", ok)
		if !ok {
			continue
		}
		live := 0
		covered := uint64(0)
		for id, sm := range ns.Shards {
			if sm.Status == model.ShardStatusDeleting {
				continue
			}
			live++
			n := 0
			for _, a := range as.Assignments {
				if a.Shard == id {
					n++
					r := a.GetInt32HashRange()
					vAssert(tag+":assignment-carries-the-shards-own-range", r != nil && r.MinHashInclusive == sm.Int32HashRange.Min && r.MaxHashInclusive == sm.Int32HashRange.Max)
					want := ""
					if sm.Leader != nil {
						want = sm.Leader.Public
					}
					vAssert(tag+":assignment-names-the-shards-leader", a.Leader == want)
				}
			}
			vAssert(tag+":shard-assigned-exactly-once", n == 1)
			covered += uint64(sm.Int32HashRange.Max) - uint64(sm.Int32HashRange.Min) + 1
		}
		vAssert(tag+":no-assignment-for-deleted-or-unknown-shards", len(as.Assignments) == live)
		if live > 0 {
			vAssert(tag+":live-ranges-cover-the-hash-space-once", covered == 1<<32)
		}
	}
	vAssert(tag+":no-assignments-for-unknown-namespaces", len(c.assignments.Namespaces) == len(st.Namespaces))
}

// ZZConfigChange (C18): a running coordinator (real NewCoordinator, real config resource with its watcher
// goroutine, real status resource over the in-memory metadata store) sees a cluster-config change: variant 0
// adds namespace "b" with nb shards, 1 removes namespace "a", 2 does both, 3 is a spurious notification (no
// change). After the real ConfigChanged: the persisted status and the shard assignments agree (ids, ranges,
// leaders), new shard ids are fresh, the shards of surviving namespaces keep id and range. (What happens to the
// shards of a REMOVED namespace is not asserted: natively their still-running election goroutines rewrite the
// status concurrently — UpdateShardMetadata can overwrite the Deleting mark — which no listed property covers.)
func ZZConfigChange(variant, nb int) {
	meta := metadata.NewMetadataProviderMemory()
	cfg := model.ClusterConfig{Servers: zzServers(3), Namespaces: []model.NamespaceConfig{{Name: "a", InitialShardCount: 2, ReplicationFactor: 1}}}
	ch := make(chan any, 1)
	ci, err := NewCoordinator(meta, func() (model.ClusterConfig, error) { return cfg, nil }, ch, zzDownRpc{})
	vAssert("coordinator-started", err == nil)
	if err != nil {
		return
	}
	c := ci.(*coordinator)
	before, _, _ := meta.Get()
	before = before.Clone()
	c.Lock()
	c.computeNewAssignments()
	zzCheckAssignments(c, before, "initial", "")
	c.Unlock()
	g := before.ShardIdGenerator
	switch variant {
	case 0:
		cfg = model.ClusterConfig{Servers: zzServers(3), Namespaces: []model.NamespaceConfig{{Name: "a", InitialShardCount: 2, ReplicationFactor: 1}, {Name: "b", InitialShardCount: uint32(nb), ReplicationFactor: 1}}}
	case 1:
		cfg = model.ClusterConfig{Servers: zzServers(3), Namespaces: []model.NamespaceConfig{}}
	case 2:
		cfg = model.ClusterConfig{Servers: zzServers(3), Namespaces: []model.NamespaceConfig{{Name: "b", InitialShardCount: uint32(nb), ReplicationFactor: 1}}}
	}
	initial := c.assignments
	ch <- nil // the config watcher reloads and calls ConfigChanged
	if variant != 3 {
		_, werr := c.WaitForNextUpdate(context.Background(), initial)
		vAssert("assignments-updated", werr == nil)
	} else {
		vSettle(50)
		vYield("config-watcher-runs")
	}
	c.Lock()
	after, _, _ := meta.Get()
	after = after.Clone()
	removed := ""
	if variant == 1 || variant == 2 {
		// natively the removed namespace's shard controllers are still running elections that rewrite their
		// status concurrently: for them only the published side is checked
		removed = "a"
	}
	zzCheckAssignments(c, after, "after-change", removed)
	c.Unlock()
	vAssert("generator-only-grows", after.ShardIdGenerator >= g)
	if variant == 0 || variant == 2 {
		nsb, ok := after.Namespaces["b"]
		vAssert("namespace-added", ok && len(nsb.Shards) == nb && after.ShardIdGenerator == g+int64(nb))
		for id := range nsb.Shards {
			vAssert("new-shard-ids-are-fresh", id >= g)
		}
	}
	if variant == 0 || variant == 3 {
		for id, sm := range before.Namespaces["a"].Shards {
			am, ok := after.Namespaces["a"].Shards[id]
			vAssert("surviving-shard-keeps-id-and-range", ok && am.Int32HashRange == sm.Int32HashRange && am.Status != model.ShardStatusDeleting)
		}
	}
	vReach("end")
}
