package kv

import (
	"github.com/oxia-db/oxia/proto"
)

// existing keys of prefix "p" per kind, and their numeric suffixes
func zzSeqExisting(kind int) (keys []string, last []uint64) {
	switch kind {
	case 1:
		return []string{"p-00000000000000000005"}, []uint64{5}
	case 2:
		return []string{"p-00000000000000000003", "p-00000000000000000005-00000000000000000007"}, []uint64{5, 7}
	case 3:
		return []string{"p-18446744073709551610"}, []uint64{18446744073709551610}
	case 4: // an ordinary record whose key merely looks like a member of the sequence
		return []string{"p--5"}, nil
	case 6: // a plain record that shares the textual prefix "p-"
		return []string{"p-summary", "p-00000000000000000003"}, []uint64{3}
	case 7: // another sequence whose prefix extends "p-"
		return []string{"p-eu-00000000000000000009", "p-00000000000000000003"}, []uint64{3}
	}
	return nil, nil
}

func zzSeqState(kind int) *zzKV {
	m := &zzKV{}
	keys, _ := zzSeqExisting(kind)
	zzStore(m, "o", zzRec{true, 0, 0, 5})
	zzStore(m, "q", zzRec{true, 1, 0, 5})
	for i, k := range keys {
		zzStore(m, k, zzRec{true, int64(2 + i), 0, 5})
	}
	return m
}

// ZZSeqGenerate: the real generateUniqueKeyFromSequences with symbolic deltas: every numeric suffix
// is the current one plus the delta, computed exactly (no wrap), hence strictly greater.
func ZZSeqGenerate(kind, nd int) {
	m := zzSeqState(kind)
	_, last := zzSeqExisting(kind)
	pk := "pk"
	req := &proto.PutRequest{Key: "p", Value: []byte("v"), PartitionKey: &pk}
	for i := 0; i < nd; i++ {
		req.SequenceKeyDelta = append(req.SequenceKeyDelta, vUint64("delta"))
	}
	vAssume(req.SequenceKeyDelta[0] > 0)
	batch := m.NewWriteBatch()
	newKey, err := generateUniqueKeyFromSequences(batch, req)
	if nd < len(last) {
		vAssert("fewer-deltas-than-suffixes-rejected", err == ErrMissingSequenceDeltas)
		vReach("end")
		return
	}
	if kind == 4 {
		vReach("non-numeric-suffix")
		vReach("end")
		return
	}
	vAssert("generated", err == nil)
	greater := false
	decided := false
	for i := 0; i < nd; i++ {
		var cur uint64
		if i < len(last) {
			cur = last[i]
		}
		d := req.SequenceKeyDelta[i]
		part := vSeqPart(newKey, "p", i)
		vAssert("suffix=current+delta", part == cur+d)
		if vKnown("KF-C16-delta-wraps", cur+d < cur) {
			vAssert("computed-exactly-no-wrap", cur+d >= cur)
		} else {
			vAssert("computed-exactly-no-wrap", cur+d >= cur)
		}
		if !decided {
			if part > cur {
				greater, decided = true, true
			} else if part < cur {
				decided = true
			}
		}
	}
	vAssert("strictly-greater-than-current-highest", greater)
	vReach("end")
}

// ZZSeqPut: sequence puts through the real ProcessWrite with solver-enumerated small deltas: the new
// record is fresh (never overwrites), sorts after every existing key of the prefix, a second
// sequence put in the same request continues from the first, and the request never fails.
func ZZSeqPut(kind, two int) {
	m := zzSeqState(kind)
	before := len(m.ents)
	d := zzNewDB(m, 10)
	pk := "pk"
	d1 := vUint64("d1")
	vAssume(d1 >= 1)
	vAssume(d1 <= 2)
	_, last := zzSeqExisting(kind)
	nd := len(last)
	if nd == 0 {
		nd = 1
	}
	mk := func(first uint64) *proto.PutRequest {
		r := &proto.PutRequest{Key: "p", Value: []byte("v"), PartitionKey: &pk, SequenceKeyDelta: []uint64{first}}
		for i := 1; i < nd; i++ {
			r.SequenceKeyDelta = append(r.SequenceKeyDelta, 1)
		}
		return r
	}
	req := &proto.WriteRequest{Puts: []*proto.PutRequest{mk(d1)}}
	if two == 1 {
		req.Puts = append(req.Puts, mk(3))
	}
	res, err := d.ProcessWrite(req, 7, 1000, NoOpCallback)
	vAssert("no-infrastructure-error", err == nil)
	if err != nil {
		return
	}
	prevKey := ""
	for i, pr := range res.Puts {
		vAssert("put-ok", pr.Status == proto.Status_OK)
		vAssert("key-returned", pr.Key != nil)
		k := *pr.Key
		vAssert("new-record-created-not-overwritten", pr.Version.ModificationsCount == 0)
		vAssert("version-fresh", pr.Version.VersionId == int64(11+i))
		_, ok := zzLoad(m, k)
		vAssert("stored-under-returned-key", ok)
		keys, _ := zzSeqExisting(kind)
		for _, ek := range keys {
			vAssert("greater-than-every-existing-key-of-prefix", zzCmp(k, ek) > 0)
		}
		if i == 1 {
			vAssert("second-continues-after-first", zzCmp(k, prevKey) > 0)
		}
		prevKey = k
		var cur uint64
		if len(last) > 0 {
			cur = last[0]
		}
		exp := cur + d1
		if i == 1 {
			exp += 3
		}
		vAssert("first-suffix-exact", vSeqPart(k, "p", 0) == exp)
	}
	vAssert("exactly-the-new-records-added", len(m.ents) == before+len(res.Puts)+2)
	vReach("end")
}

var zzDashPrefixes = []string{"t-1", "a-b", "x-", "p-00000000000000000001"}

// ZZSeqDashPrefix (C16): the same exact-arithmetic check for prefixes that themselves contain '-' or digits (the
// suffix separator and the suffix alphabet): the current highest key of prefix P is P-…05 (one suffix) or
// P-…05-…07 (two); the generated key is P followed by current + delta per suffix — the prefix is cut off as a
// literal prefix, not character-wise — hence strictly greater and never an existing record's key.
func ZZSeqDashPrefix(pi, two, nd int) {
	pfx := zzDashPrefixes[pi]
	m := &zzKV{}
	last := []uint64{5}
	key := pfx + "-00000000000000000005"
	if two == 1 {
		last = []uint64{5, 7}
		key += "-00000000000000000007"
	}
	zzStore(m, "o", zzRec{true, 0, 0, 5})
	zzStore(m, key, zzRec{true, 2, 0, 5})
	pk := "pk"
	req := &proto.PutRequest{Key: pfx, Value: []byte("v"), PartitionKey: &pk}
	for i := 0; i < nd; i++ {
		d := vUint64("delta")
		vAssume(d < 1<<62) // wrap-around is KF-C16-delta-wraps, checked by ZZSeqGenerate
		req.SequenceKeyDelta = append(req.SequenceKeyDelta, d)
	}
	vAssume(req.SequenceKeyDelta[0] > 0)
	batch := m.NewWriteBatch()
	newKey, err := generateUniqueKeyFromSequences(batch, req)
	if nd < len(last) {
		vAssert("fewer-deltas-than-suffixes-rejected", err == ErrMissingSequenceDeltas)
		vReach("end")
		return
	}
	vAssert("generated", err == nil)
	for i := 0; i < nd; i++ {
		var cur uint64
		if i < len(last) {
			cur = last[i]
		}
		vAssert("suffix=current+delta", vSeqPart(newKey, pfx, i) == cur+req.SequenceKeyDelta[i])
	}
	vReach("end")
}
