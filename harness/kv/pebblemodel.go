package kv

import (
	"io"

	"github.com/cockroachdb/pebble"
)

// ---- Model of the Pebble API that kv_pebble.go is written against (engine side only: the functions below
// replace the real methods of *pebble.DB / *pebble.Batch / *pebble.Iterator by name; the native replay runs
// the same harness on the real Pebble). The model states Pebble's documented contract for a store opened
// with oxia's comparer: keys are ordered by the comparer's Compare (= compare.CompareWithSlash), iterator
// bounds are [Lower, Upper), an iterator sees the state at its creation, an indexed batch reads its own
// writes on top of the DB and is applied atomically by Commit, DeleteRange removes [start, end).

type zzPDB struct{ ents []zzEnt }

type zzPBatch struct {
	db    *zzPDB
	view  []zzEnt // DB state with the batch's operations applied
	count uint32
	size  int
	ops   []zzPOp
}

type zzPOp struct {
	kind   int // 0 set, 1 delete, 2 delete-range
	k, end string
	v      []byte
}

type zzPIter struct {
	view     []zzEnt
	wlo, whi int // window of view inside the bounds: indexes wlo..whi (empty when wlo > whi)
	pos      int // wlo-1 (before the first) .. whi+1 (after the last)
	closed   bool
}

var zzPDBs = map[*pebble.DB]*zzPDB{}
var zzPBatches = map[*pebble.Batch]*zzPBatch{}
var zzPIters = map[*pebble.Iterator]*zzPIter{}

func zzNewPebbleDB() *pebble.DB {
	d := new(pebble.DB)
	zzPDBs[d] = &zzPDB{}
	return d
}

func zzPIterOver(view []zzEnt, o *pebble.IterOptions) *pebble.Iterator {
	it := new(pebble.Iterator)
	st := &zzPIter{view: view, wlo: 0, whi: len(view) - 1}
	if o != nil {
		if o.LowerBound != nil {
			for st.wlo < len(view) && zzCmp(view[st.wlo].k, string(o.LowerBound)) < 0 {
				st.wlo++
			}
		}
		if o.UpperBound != nil {
			for st.whi >= 0 && zzCmp(view[st.whi].k, string(o.UpperBound)) >= 0 {
				st.whi--
			}
		}
	}
	st.pos = st.wlo - 1
	zzPIters[it] = st
	return it
}

func (s *zzPIter) inBounds(i int) bool { return i >= s.wlo && i <= s.whi }

// ---- *pebble.DB
func zzPDBGet(d *pebble.DB, key []byte) ([]byte, io.Closer, error) {
	m := zzPDBs[d]
	if i, ok := zzFind(m.ents, string(key)); ok {
		return m.ents[i].v, zzCloser{}, nil
	}
	return nil, nil, pebble.ErrNotFound
}
func zzPDBNewIter(d *pebble.DB, o *pebble.IterOptions) (*pebble.Iterator, error) {
	return zzPIterOver(zzPDBs[d].ents, o), nil
}
func zzPDBNewIndexedBatch(d *pebble.DB) *pebble.Batch {
	b := new(pebble.Batch)
	m := zzPDBs[d]
	zzPBatches[b] = &zzPBatch{db: m, view: m.ents}
	return b
}
func zzPDBFlush(*pebble.DB) error { return nil }
func zzPDBClose(*pebble.DB) error { return nil }

// ---- *pebble.Batch
func zzPBatchSet(b *pebble.Batch, key, value []byte, _ *pebble.WriteOptions) error {
	m := zzPBatches[b]
	v := append([]byte(nil), value...)
	m.view = zzInsert(m.view, string(key), v)
	m.ops = append(m.ops, zzPOp{kind: 0, k: string(key), v: v})
	m.count++
	m.size += len(key) + len(value)
	return nil
}
func zzPBatchDelete(b *pebble.Batch, key []byte, _ *pebble.WriteOptions) error {
	m := zzPBatches[b]
	m.view = zzRemove(m.view, string(key))
	m.ops = append(m.ops, zzPOp{kind: 1, k: string(key)})
	m.count++
	m.size += len(key)
	return nil
}
func zzPBatchDeleteRange(b *pebble.Batch, start, end []byte, _ *pebble.WriteOptions) error {
	m := zzPBatches[b]
	var nw []zzEnt
	for _, e := range m.view {
		if zzCmp(e.k, string(start)) >= 0 && zzCmp(e.k, string(end)) < 0 {
			continue
		}
		nw = append(nw, e)
	}
	m.view = nw
	m.ops = append(m.ops, zzPOp{kind: 2, k: string(start), end: string(end)})
	m.count++
	m.size += len(start) + len(end)
	return nil
}
func zzPBatchGet(b *pebble.Batch, key []byte) ([]byte, io.Closer, error) {
	m := zzPBatches[b]
	if i, ok := zzFind(m.view, string(key)); ok {
		return m.view[i].v, zzCloser{}, nil
	}
	return nil, nil, pebble.ErrNotFound
}
func zzPBatchNewIter(b *pebble.Batch, o *pebble.IterOptions) (*pebble.Iterator, error) {
	return zzPIterOver(zzPBatches[b].view, o), nil
}
func zzPBatchCommit(b *pebble.Batch, _ *pebble.WriteOptions) error {
	m := zzPBatches[b]
	// applied atomically, in order, on the CURRENT state of the DB
	cur := m.db.ents
	for _, op := range m.ops {
		switch op.kind {
		case 0:
			cur = zzInsert(cur, op.k, op.v)
		case 1:
			cur = zzRemove(cur, op.k)
		default:
			var nw []zzEnt
			for _, e := range cur {
				if zzCmp(e.k, op.k) >= 0 && zzCmp(e.k, op.end) < 0 {
					continue
				}
				nw = append(nw, e)
			}
			cur = nw
		}
	}
	m.db.ents = cur
	return nil
}
func zzPBatchClose(*pebble.Batch) error   { return nil }
func zzPBatchCount(b *pebble.Batch) uint32 { return zzPBatches[b].count }
func zzPBatchLen(b *pebble.Batch) int      { return zzPBatches[b].size + 12 }

// ---- *pebble.Iterator
func zzPIterFirst(it *pebble.Iterator) bool {
	s := zzPIters[it]
	s.pos = s.wlo
	return s.inBounds(s.pos)
}
func zzPIterLast(it *pebble.Iterator) bool {
	s := zzPIters[it]
	s.pos = s.whi
	return s.inBounds(s.pos)
}
func zzPIterSeekGE(it *pebble.Iterator, key []byte) bool {
	s := zzPIters[it]
	s.pos = s.whi + 1
	for i := s.wlo; i <= s.whi; i++ {
		if zzCmp(s.view[i].k, string(key)) >= 0 {
			s.pos = i
			break
		}
	}
	return s.inBounds(s.pos)
}
func zzPIterSeekLT(it *pebble.Iterator, key []byte) bool {
	s := zzPIters[it]
	s.pos = s.wlo - 1
	for i := s.whi; i >= s.wlo; i-- {
		if zzCmp(s.view[i].k, string(key)) < 0 {
			s.pos = i
			break
		}
	}
	return s.inBounds(s.pos)
}
func zzPIterNext(it *pebble.Iterator) bool {
	s := zzPIters[it]
	if s.pos <= s.whi {
		s.pos++
	}
	return s.inBounds(s.pos)
}
func zzPIterPrev(it *pebble.Iterator) bool {
	s := zzPIters[it]
	if s.pos >= s.wlo {
		s.pos--
	}
	return s.inBounds(s.pos)
}
func zzPIterValid(it *pebble.Iterator) bool { s := zzPIters[it]; return s.inBounds(s.pos) }
func zzPIterKey(it *pebble.Iterator) []byte {
	s := zzPIters[it]
	if !s.inBounds(s.pos) {
		return nil
	}
	return []byte(s.view[s.pos].k)
}
func zzPIterValue(it *pebble.Iterator) []byte {
	s := zzPIters[it]
	if !s.inBounds(s.pos) {
		return nil
	}
	return s.view[s.pos].v
}
func zzPIterValueAndErr(it *pebble.Iterator) ([]byte, error) { return zzPIterValue(it), nil }
func zzPIterError(*pebble.Iterator) error                   { return nil }
func zzPIterClose(it *pebble.Iterator) error                { zzPIters[it].closed = true; return nil }
