package kv

import (
	"io"
	"io/fs"
	"os"
	"path/filepath"
	"time"
)

// ---- model files for the snapshot transfer (engine side: os.Stat / os.Open / os.OpenFile / Seek / io.ReadFull /
// Write / Close / os.RemoveAll / os.MkdirAll are replaced by these; natively the same harness runs on real
// files in a temp dir).

var zzSnapFiles map[string][]byte

type zzSnapHandle struct {
	name   string
	pos    int64
	closed bool
}

var zzSnapHandles = map[*os.File]*zzSnapHandle{}
var zzSnapOpenCount int

type zzSnapFI struct{ size int64 }

func (f zzSnapFI) Name() string       { return "" }
func (f zzSnapFI) Size() int64        { return f.size }
func (f zzSnapFI) Mode() fs.FileMode  { return 0o644 }
func (f zzSnapFI) ModTime() time.Time { return time.Time{} }
func (f zzSnapFI) IsDir() bool        { return false }
func (f zzSnapFI) Sys() any           { return nil }

func zzSnapStat(name string) (os.FileInfo, error) {
	b, ok := zzSnapFiles[name]
	if !ok {
		return nil, os.ErrNotExist
	}
	return zzSnapFI{int64(len(b))}, nil
}
func zzSnapOpen(name string) (*os.File, error) {
	if _, ok := zzSnapFiles[name]; !ok {
		return nil, os.ErrNotExist
	}
	f := new(os.File)
	zzSnapHandles[f] = &zzSnapHandle{name: name}
	zzSnapOpenCount++
	return f, nil
}
func zzSnapOpenFile(name string, flag int, _ os.FileMode) (*os.File, error) {
	if _, ok := zzSnapFiles[name]; !ok && flag&os.O_CREATE == 0 {
		return nil, os.ErrNotExist
	}
	if _, ok := zzSnapFiles[name]; !ok || flag&os.O_TRUNC != 0 {
		zzSnapFiles[name] = nil
	}
	f := new(os.File)
	zzSnapHandles[f] = &zzSnapHandle{name: name}
	zzSnapOpenCount++
	return f, nil
}
func zzSnapSeek(f *os.File, off int64, whence int) (int64, error) {
	h := zzSnapHandles[f]
	if h == nil || h.closed {
		return 0, os.ErrClosed
	}
	if whence != io.SeekStart {
		return 0, os.ErrInvalid
	}
	h.pos = off
	return off, nil
}
func zzSnapReadFull(r io.Reader, buf []byte) (int, error) {
	h := zzSnapHandles[r.(*os.File)]
	if h == nil || h.closed {
		return 0, os.ErrClosed
	}
	b := zzSnapFiles[h.name]
	n := 0
	for n < len(buf) && h.pos < int64(len(b)) {
		buf[n] = b[h.pos]
		n++
		h.pos++
	}
	if n == len(buf) {
		return n, nil
	}
	if n == 0 {
		return 0, io.EOF
	}
	return n, io.ErrUnexpectedEOF
}
func zzSnapWrite(f *os.File, p []byte) (int, error) {
	h := zzSnapHandles[f]
	if h == nil || h.closed {
		return 0, os.ErrClosed
	}
	// a short write, as the interface allows: at most 3 bytes per call
	n := len(p)
	if n > 3 {
		n = 3
	}
	zzSnapFiles[h.name] = append(zzSnapFiles[h.name], p[:n]...)
	return n, nil
}
func zzSnapClose(f *os.File) error {
	h := zzSnapHandles[f]
	if h == nil || h.closed {
		return os.ErrClosed
	}
	h.closed = true
	zzSnapOpenCount--
	return nil
}
func zzSnapRemoveAll(dir string) error {
	for k := range zzSnapFiles {
		if len(k) >= len(dir) && k[:len(dir)] == dir {
			delete(zzSnapFiles, k)
		}
	}
	return nil
}
func zzSnapMkdirAll(string, os.FileMode) error { return nil }

// natively real files; in the symbolic run replaced by the model versions
func zzSnapPut(path string, b []byte)      { _ = os.MkdirAll(filepath.Dir(path), 0o755); _ = os.WriteFile(path, b, 0o644) }
func zzSnapGet(path string) ([]byte, bool) { b, err := os.ReadFile(path); return b, err == nil }
func zzSnapPutModel(path string, b []byte) {
	if zzSnapFiles == nil {
		zzSnapFiles = map[string][]byte{}
	}
	zzSnapFiles[path] = append([]byte(nil), b...)
}
func zzSnapGetModel(path string) ([]byte, bool) { b, ok := zzSnapFiles[path]; return b, ok }

// ZZSnapshotFiles (C03, C06): the file transfer that installs a snapshot on a follower — the REAL
// pebbleSnapshot iterator (Valid / Chunk / NextChunkContent / Next, driven exactly as followerCursor.sendSnapshot
// drives it) feeding the REAL pebbleSnapshotLoader.AddChunk — over a checkpoint directory of three files whose
// sizes s0, s1, s2 straddle the chunk size (4 bytes here; MaxSnapshotChunkSize is a variable) and whose bytes
// are symbolic. The follower must end up with exactly the leader's files, bit for bit: every file present
// (the empty one too), no byte lost, repeated or reordered at a chunk boundary, every chunk labelled with its
// file, its index and the file's chunk count, chunks in index order, no chunk larger than the limit, and no
// file left open on either side.
func ZZSnapshotFiles(s0, s1, s2 int) {
	old := MaxSnapshotChunkSize
	MaxSnapshotChunkSize = 4
	defer func() { MaxSnapshotChunkSize = old }()
	zzSnapFiles = map[string][]byte{}
	root := vTempDir()
	src, dst := filepath.Join(root, "ckpt"), filepath.Join(root, "db")
	names := []string{"000001.sst", "MANIFEST-000002", "OPTIONS-000003"}
	sizes := []int{s0, s1, s2}
	var content [][]byte
	for i, n := range names {
		b := vBytes("f", sizes[i])
		content = append(content, b)
		zzSnapPut(filepath.Join(src, n), b)
	}
	ps := &pebbleSnapshot{path: src, files: append([]string(nil), names...)}
	sl := &pebbleSnapshotLoader{dbPath: dst}
	vAssert("loader-dir", os.MkdirAll(dst, 0o755) == nil)
	chunks := 0
	lastName, lastIdx := "", int32(-1)
	for ; ps.Valid(); ps.Next() {
		c, err := ps.Chunk()
		vAssert("chunk-readable", err == nil)
		if err != nil {
			vReach("end")
			return
		}
		vAssert("chunk-within-limit", int64(len(c.Content())) <= MaxSnapshotChunkSize)
		if c.Name() == lastName {
			vAssert("chunks-of-a-file-in-index-order", c.Index() == lastIdx+1)
		} else {
			vAssert("file-starts-at-chunk-zero", c.Index() == 0)
			vAssert("previous-file-was-complete", lastName == "" || lastIdx >= 0)
		}
		vAssert("index-below-count", c.Index() < c.TotalCount())
		lastName, lastIdx = c.Name(), c.Index()
		vAssert("chunk-accepted", sl.AddChunk(c.Name(), c.Index(), c.TotalCount(), c.Content()) == nil)
		chunks++
		vAssert("terminates", chunks <= 16)
	}
	vAssert("loader-has-no-open-file", sl.file == nil)
	for i, n := range names {
		got, ok := zzSnapGet(filepath.Join(dst, n))
		vAssert("every-file-arrives", ok)
		vAssert("file-length-identical", len(got) == len(content[i]))
		if len(got) == len(content[i]) {
			for j := range got {
				vAssert("file-bit-identical", got[j] == content[i][j])
			}
		}
	}
	vAssert("snapshot-closes", ps.Close() == nil)
	sl.Complete()
	vAssert("loader-closes", sl.Close() == nil)
	_, still := zzSnapGet(filepath.Join(dst, names[0]))
	vAssert("completed-load-keeps-the-files", still)
	vReach("end")
}
