package kv

import (
	"context"

	"github.com/oxia-db/oxia/common/compare"
)

// zzOpenPebble: natively the REAL Pebble store through the real factory; in the symbolic run this function
// is replaced (engine side) by zzOpenPebbleModel: the real *Pebble adapter struct over the Pebble API model.
func zzOpenPebble() *Pebble {
	f, err := NewPebbleKVFactory(&FactoryOptions{DataDir: vTempDir(), CacheSizeMB: 1, InMemory: true})
	vAssert("factory", err == nil)
	k, err := f.NewKV("zz", 1)
	vAssert("open", err == nil)
	return k.(*Pebble)
}
func zzOpenPebbleModel() *Pebble {
	ctx, cancel := context.WithCancel(context.Background())
	return &Pebble{ctx: ctx, cancel: cancel, db: zzNewPebbleDB(), namespace: "zz", shardId: 1}
}

type zzRefKV struct {
	k []string
	v []byte
}

func (r *zzRefKV) put(k string, v byte) {
	for i := range r.k {
		if r.k[i] == k {
			r.v[i] = v
			return
		}
	}
	r.k = append(r.k, k)
	r.v = append(r.v, v)
}
func (r *zzRefKV) del(k string) {
	for i := range r.k {
		if r.k[i] == k {
			r.k = append(append([]string(nil), r.k[:i]...), r.k[i+1:]...)
			r.v = append(append([]byte(nil), r.v[:i]...), r.v[i+1:]...)
			return
		}
	}
}
func (r *zzRefKV) delRange(lo, hi string) {
	var nk []string
	var nv []byte
	for i := range r.k {
		if zzCmp(r.k[i], lo) >= 0 && zzCmp(r.k[i], hi) < 0 {
			continue
		}
		nk = append(nk, r.k[i])
		nv = append(nv, r.v[i])
	}
	r.k, r.v = nk, nv
}

// best returns the index of the reference entry selected by the comparison type, or -1: a linear scan with
// the slash-aware order, independent of any sorted structure.
func (r *zzRefKV) best(q string, ct ComparisonType) int {
	b := -1
	for i := range r.k {
		c := compare.CompareWithSlash([]byte(r.k[i]), []byte(q))
		ok := false
		switch ct {
		case ComparisonEqual:
			ok = c == 0
		case ComparisonFloor:
			ok = c <= 0
		case ComparisonLower:
			ok = c < 0
		case ComparisonCeiling:
			ok = c >= 0
		case ComparisonHigher:
			ok = c > 0
		}
		if !ok {
			continue
		}
		if b == -1 {
			b = i
			continue
		}
		cb := compare.CompareWithSlash([]byte(r.k[i]), []byte(r.k[b]))
		if (ct == ComparisonFloor || ct == ComparisonLower) && cb > 0 {
			b = i
		}
		if (ct == ComparisonCeiling || ct == ComparisonHigher) && cb < 0 {
			b = i
		}
	}
	return b
}

// ZZPebbleAdapter (C11 / C12): the REAL kv_pebble.go adapter (Get with the five comparison types, getFloor /
// getCeiling / getLower / getHigher, RangeScan / KeyRangeScan / KeyRangeScanReverse, the write batch with
// Put / Delete / DeleteRange / Get / FindLower / RangeScan / Commit) over the Pebble API model, with nk
// symbolic 2-byte keys (any mix of '/', letters and other bytes) stored through one batch, a symbolic
// query key and comparison type, and then a second batch that deletes one key, a symbolic range, or (4) a
// possibly absent key twice (blind delete). Every
// answer must equal the answer of a linear scan of the reference under the slash-aware order: the adapter
// must not mix byte order with key order anywhere.
func ZZPebbleAdapter(nk, ct, second int) {
	p := zzOpenPebble()
	ref := &zzRefKV{}
	raw := vBytes("keys", 2*nk)
	wb := p.NewWriteBatch()
	for i := 0; i < nk; i++ {
		k := string(raw[2*i : 2*i+2])
		vAssert("put-ok", wb.Put(k, []byte{byte(10 + i)}) == nil)
		ref.put(k, byte(10+i))
	}
	// read-your-writes inside the batch
	if nk > 0 {
		v, cl, err := wb.Get(ref.k[0])
		vAssert("batch-reads-its-own-write", err == nil && len(v) == 1 && v[0] == ref.v[0])
		if cl != nil {
			_ = cl.Close()
		}
	}
	vAssert("commit-ok", wb.Commit() == nil)
	_ = wb.Close()
	q := string(vBytes("query", 2))
	zzCheckGet(p, ref, q, ComparisonType(ct))
	// forward and reverse range scans over [q, upper)
	upper := string(vBytes("upper", 2))
	zzCheckScans(p, ref, q, upper)
	// second batch
	wb = p.NewWriteBatch()
	switch second {
	case 1:
		if nk > 0 {
			vAssert("delete-ok", wb.Delete(ref.k[0]) == nil)
			ref.del(ref.k[0])
		}
	case 2:
		vAssert("delete-range-ok", wb.DeleteRange(q, upper) == nil)
		ref.delRange(q, upper)
	case 4:
		// WriteBatch.Delete is a BLIND delete (the contract the model KV of the upper-layer harnesses assumes and
		// db.go / the secondary-index and session callbacks rely on): deleting a key that is not stored — or
		// the same key twice in one batch — is not an error
		vAssert("blind-delete-ok", wb.Delete(q) == nil)
		vAssert("second-delete-of-the-same-key-in-one-batch-ok", wb.Delete(q) == nil)
		ref.del(q)
	case 3:
		lk, err := wb.FindLower(q)
		b := ref.best(q, ComparisonLower)
		if b == -1 {
			vAssert("find-lower-none", err != nil)
		} else {
			vAssert("find-lower", err == nil && lk == ref.k[b])
		}
	}
	vAssert("commit2-ok", wb.Commit() == nil)
	_ = wb.Close()
	if second != 0 {
		zzCheckGet(p, ref, q, ComparisonType(ct))
		zzCheckScans(p, ref, "", "")
	}
	_ = p.Close()
	vReach("end")
}

func zzCheckGet(p *Pebble, ref *zzRefKV, q string, ct ComparisonType) {
	rk, v, cl, err := p.Get(q, ct)
	b := ref.best(q, ct)
	if b == -1 {
		vAssert("get-not-found", err == ErrKeyNotFound)
	} else {
		vAssert("get-found", err == nil)
		if err == nil {
			vAssert("get-returns-the-reference-key", rk == ref.k[b])
			vAssert("get-returns-the-reference-value", len(v) == 1 && v[0] == ref.v[b])
		}
	}
	if cl != nil {
		_ = cl.Close()
	}
}

func zzCheckScans(p *Pebble, ref *zzRefKV, lo, hi string) {
	in := func(k string) bool {
		return (lo == "" || zzCmp(k, lo) >= 0) && (hi == "" || zzCmp(k, hi) < 0)
	}
	want := 0
	for _, k := range ref.k {
		if in(k) {
			want++
		}
	}
	it, err := p.RangeScan(lo, hi)
	vAssert("scan-ok", err == nil)
	n := 0
	prev := ""
	for ; it.Valid(); it.Next() {
		k := it.Key()
		vAssert("scan-key-in-range", in(k))
		if n > 0 {
			vAssert("scan-ascending-in-slash-order", zzCmp(prev, k) < 0)
		}
		found := false
		for i := range ref.k {
			if ref.k[i] == k {
				found = true
				v, verr := it.Value()
				vAssert("scan-value", verr == nil && len(v) == 1 && v[0] == ref.v[i])
			}
		}
		vAssert("scan-key-is-stored", found)
		prev = k
		n++
	}
	vAssert("scan-complete", n == want)
	_ = it.Close()
	rit, err := p.KeyRangeScanReverse(lo, hi)
	vAssert("reverse-scan-ok", err == nil)
	n = 0
	for ; rit.Valid(); rit.Prev() {
		k := rit.Key()
		vAssert("reverse-scan-key-in-range", in(k))
		if n > 0 {
			vAssert("reverse-scan-descending-in-slash-order", zzCmp(prev, k) > 0)
		}
		prev = k
		n++
	}
	vAssert("reverse-scan-complete", n == want)
	_ = rit.Close()
}
