package kv

import (
	"context"
	"time"

	"github.com/oxia-db/oxia/proto"
)

var zzNKeys = []string{"a", "a/b", "b", "__oxia/x"}

func zzReadBatch(m *zzKV, offset int64) (*proto.NotificationBatch, bool) {
	_, v, _, err := m.Get(notificationKey(offset), ComparisonEqual)
	if err != nil {
		return nil, false
	}
	nb := &proto.NotificationBatch{}
	_ = nb.UnmarshalVT(v)
	return nb, true
}

// ZZNotify: the notification batch written by the real ProcessWrite lists exactly the user keys the
// request created / modified / deleted / range-deleted with the resulting version ids, is stored under
// the request's offset in the same atomic commit, never mentions internal keys, exists also when
// empty, and does not exist when notifications are disabled.
func ZZNotify(kp1, kp2, kd, rng, enabled int) {
	m := &zzKV{}
	var present [4]bool
	for i, k := range zzNKeys {
		if vBool("present") {
			present[i] = true
			zzStore(m, k, zzRec{true, int64(i), 3, 5})
		}
	}
	d := zzNewDB(m, 10)
	d.notificationsEnabled = enabled == 1
	req := &proto.WriteRequest{}
	var pkeys []int
	for _, kp := range []int{kp1, kp2} {
		if kp < 4 {
			pkeys = append(pkeys, kp)
			req.Puts = append(req.Puts, &proto.PutRequest{Key: zzNKeys[kp], Value: []byte("v"), ExpectedVersionId: zzExpected("putExp")})
		}
	}
	if kd < 4 {
		req.Deletes = append(req.Deletes, &proto.DeleteRequest{Key: zzNKeys[kd]})
	}
	if rng == 1 {
		req.DeleteRanges = append(req.DeleteRanges, &proto.DeleteRangeRequest{StartInclusive: "a", EndExclusive: "b/"})
	}
	if rng == 2 {
		req.DeleteRanges = append(req.DeleteRanges, &proto.DeleteRangeRequest{StartInclusive: "__oxia/a", EndExclusive: "__oxia/z"})
	}
	commitsBefore := m.commits
	res, err := d.ProcessWrite(req, 7, 1000, NoOpCallback)
	vAssert("no-error", err == nil)
	if err != nil {
		return
	}
	vAssert("one-atomic-commit", m.commits == commitsBefore+1)
	nb, ok := zzReadBatch(m, 7)
	if enabled == 0 {
		vAssert("disabled-no-batch", !ok)
		vReach("end")
		return
	}
	vAssert("batch-stored-under-offset", ok)
	if !ok {
		return
	}
	vAssert("batch-offset", nb.Offset == 7)
	vAssert("batch-timestamp", nb.Timestamp == 1000)
	vAssert("batch-shard", nb.Shard == 1)
	_, other := zzReadBatch(m, 8)
	vAssert("nothing-under-next-offset", !other)
	vAssert("tracker-advanced", d.notificationsTracker.lastOffset.Load() == 7)

	// expected content from the per-operation outcomes, later operations overriding earlier ones
	type exp struct {
		typ proto.NotificationType
		ver int64
		has bool
	}
	var want [4]exp
	for i, kp := range pkeys {
		pr := res.Puts[i]
		if pr.Status == proto.Status_OK && kp != 3 {
			t := proto.NotificationType_KEY_CREATED
			if pr.Version.ModificationsCount > 0 {
				t = proto.NotificationType_KEY_MODIFIED
			}
			want[kp] = exp{t, pr.Version.VersionId, true}
		}
	}
	if kd < 3 && res.Deletes[0].Status == proto.Status_OK {
		want[kd] = exp{proto.NotificationType_KEY_DELETED, 0, true}
	}
	n := 0
	for i, k := range zzNKeys {
		got, found := nb.Notifications[k]
		if rng == 1 && i == 0 {
			vAssert("range-notified-at-start-key", found && got.Type == proto.NotificationType_KEY_RANGE_DELETED && *got.KeyRangeLast == "b/")
			n++
			continue
		}
		vAssert("notified-iff-changed", found == want[i].has)
		if found {
			n++
			vAssert("notification-type", got.Type == want[i].typ)
			if want[i].typ != proto.NotificationType_KEY_DELETED {
				vAssert("notification-version", got.VersionId != nil && *got.VersionId == want[i].ver)
			}
		}
	}
	vAssert("internal-keys-never-notified", nb.Notifications["__oxia/x"] == nil && nb.Notifications["__oxia/a"] == nil)
	vAssert("no-extra-notifications", len(nb.Notifications) == n)
	vReach("end")
}

type zzClock struct{ ms int64 }

func (c *zzClock) Now() time.Time { return time.UnixMilli(c.ms) }

// ZZNotifyRead: ReadNextNotifications over n stored batches at consecutive offsets first..first+n-1
// returns exactly the batches at or after the requested offset, in strictly increasing offset order.
func ZZNotifyRead(n, first, start int) {
	m := &zzKV{}
	zzStore(m, "a", zzRec{true, 1, 0, 5})
	zzStore(m, "__oxia/zz", zzRec{true, 1, 0, 5})
	d := zzNewDB(m, 10)
	for i := 0; i < n; i++ {
		nb := &proto.NotificationBatch{Shard: 1, Offset: int64(first + i), Timestamp: uint64(100 + i)}
		b, _ := nb.MarshalVT()
		m.ents = zzInsert(m.ents, notificationKey(int64(first+i)), b)
	}
	d.notificationsEnabled = true
	d.notificationsTracker.lastOffset.Store(int64(first + n - 1))
	vAssume(start <= first+n-1)
	got, err := d.ReadNextNotifications(context.Background(), int64(start))
	vAssert("read-ok", err == nil)
	expFirst := start
	if expFirst < first {
		expFirst = first
	}
	vAssert("count", len(got) == first+n-expFirst)
	for i, nb := range got {
		vAssert("in-order-no-gap-no-dup", nb.Offset == int64(expFirst+i))
	}
	vReach("end")
}

// ZZNotifyTrim: the real trimNotifications / getFirstLast / binarySearch / readAt with symbolic
// non-decreasing timestamps, clock and a concrete retention: exactly the prefix of batches whose
// timestamp is at or before the cut-off is removed, nothing younger.
func ZZNotifyTrim(n, first int) {
	m := &zzKV{}
	zzStore(m, "a", zzRec{true, 1, 0, 5})
	ts := make([]int64, n)
	prev := int64(0)
	for i := 0; i < n; i++ {
		ts[i] = vInt64("ts")
		vAssume(ts[i] >= prev)
		vAssume(ts[i] < 1<<40)
		prev = ts[i]
		nb := &proto.NotificationBatch{Shard: 1, Offset: int64(first + i), Timestamp: uint64(ts[i])}
		b, _ := nb.MarshalVT()
		m.ents = zzInsert(m.ents, notificationKey(int64(first+i)), b)
	}
	now := vInt64("now")
	vAssume(now >= 0)
	vAssume(now < 1<<40)
	const retention = 1000 * time.Millisecond
	t := &notificationsTrimmer{kv: m, notificationsRetentionTime: retention, clock: &zzClock{now}, log: zzLogger()}
	err := t.trimNotifications()
	vAssert("trim-ok", err == nil)
	cutoff := now - 1000
	removed := 0
	for i := 0; i < n; i++ {
		_, ok := zzReadBatch(m, int64(first+i))
		old := ts[i] <= cutoff
		vAssert("removed-iff-at-or-before-cutoff", ok == !old)
		if !ok {
			removed++
		}
	}
	vObserve("removed", int64(removed))
	_, _, _, gerr := m.Get("a", ComparisonEqual)
	vAssert("user-keys-untouched", gerr == nil)
	vReach("end")
}
