package kv

import (
	"github.com/oxia-db/oxia/proto"
)

// ZZDbScan (C12, read side): db.List and db.RangeScan agree with db.Get. The DB holds three user records
// written through the real ProcessWrite — one created once, one updated `upd` times, one owned by a session —
// in a symbolic key order (which of them sorts first). Every record a range scan returns carries exactly the
// version id, modification count, timestamps, session id and value that a Get of that key returns, whatever
// came before it in the scan; List returns the same keys in the same order.
func ZZDbScan(upd int) {
	m := &zzKV{}
	d := zzNewDB(m, -1)
	names := [][]string{{"a", "m", "z"}, {"m", "a", "z"}, {"z", "m", "a"}}[vChoice("order", 3)]
	busy, plain, owned := names[0], names[1], names[2]
	sid := int64(5)
	off := int64(0)
	w := func(req *proto.WriteRequest) {
		_, err := d.ProcessWrite(req, off, uint64(1000+off), NoOpCallback)
		vAssert("write-ok", err == nil)
		off++
	}
	w(&proto.WriteRequest{Puts: []*proto.PutRequest{{Key: busy, Value: []byte{1}}}})
	for i := 0; i < upd; i++ {
		w(&proto.WriteRequest{Puts: []*proto.PutRequest{{Key: busy, Value: []byte{byte(2 + i)}}}})
	}
	w(&proto.WriteRequest{Puts: []*proto.PutRequest{{Key: owned, Value: []byte{7}, SessionId: &sid, ClientIdentity: strp("c")}}})
	w(&proto.WriteRequest{Puts: []*proto.PutRequest{{Key: plain, Value: []byte{9}}}})
	it, err := d.RangeScan(&proto.RangeScanRequest{StartInclusive: "a", EndExclusive: "zz"})
	vAssert("scan-ok", err == nil)
	lit, err := d.List(&proto.ListRequest{StartInclusive: "a", EndExclusive: "zz"})
	vAssert("list-ok", err == nil)
	n := 0
	for ; it.Valid(); it.Next() {
		r, verr := it.Value()
		vAssert("scan-value-ok", verr == nil && r != nil && r.Key != nil)
		if verr != nil || r == nil || r.Key == nil {
			break
		}
		key := *r.Key
		vAssert("list-has-the-same-key", lit.Valid() && lit.Key() == key)
		lit.Next()
		g, gerr := d.Get(&proto.GetRequest{Key: key, IncludeValue: true})
		vAssert("get-ok", gerr == nil && g.Status == proto.Status_OK)
		if verr == nil && gerr == nil {
			vAssert("scan-agrees-with-get-on-version", r.Version.VersionId == g.Version.VersionId && r.Version.ModificationsCount == g.Version.ModificationsCount)
			vAssert("scan-agrees-with-get-on-timestamps", r.Version.CreatedTimestamp == g.Version.CreatedTimestamp && r.Version.ModifiedTimestamp == g.Version.ModifiedTimestamp)
			vAssert("scan-agrees-with-get-on-owner", (r.Version.SessionId == nil) == (g.Version.SessionId == nil) && (r.Version.ClientIdentity == nil) == (g.Version.ClientIdentity == nil))
			vAssert("scan-agrees-with-get-on-value", len(r.Value) == 1 && r.Value[0] == g.Value[0])
		}
		n++
	}
	vAssert("scan-returns-the-three-records", n == 3)
	vAssert("list-ends-too", !lit.Valid())
	_ = it.Close()
	_ = lit.Close()
	vReach("end")
}

func strp(s string) *string { return &s }
