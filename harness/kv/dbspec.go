package kv

import (
	"log/slog"

	"github.com/oxia-db/oxia/common/concurrent"
	"github.com/oxia-db/oxia/common/metric"
	"github.com/oxia-db/oxia/proto"
)

// Key universe for the DB-level harnesses: exercises the slash order ("a" < "b" < "a/b" < "a/c").
var zzKeys = []string{"a", "a/b", "b", "a/c"}

type zzRec struct {
	present bool
	ver     int64
	mc      int64
	created uint64
}

func zzLogger() *slog.Logger { return slog.Default() }

// zzNewDB builds the real db struct directly over the model KV (what NewDB does, minus the
// notification trimmer goroutine); the in-memory version counter is given.
func zzNewDB(m *zzKV, last int64) *db {
	labels := metric.LabelsForShard("zz", 1)
	d := &db{kv: m, shardId: 1, sequenceWaiterTracker: NewSequencesWaitTracker(), notificationsEnabled: false,
		log:                       slog.Default(),
		batchWriteLatencyHisto:    metric.NewLatencyHistogram("zz_db_batch_write_latency", "zz", labels),
		getLatencyHisto:           metric.NewLatencyHistogram("zz_db_get_latency", "zz", labels),
		listLatencyHisto:          metric.NewLatencyHistogram("zz_db_list_latency", "zz", labels),
		putCounter:                metric.NewCounter("zz_db_puts", "zz", "count", labels),
		deleteCounter:             metric.NewCounter("zz_db_deletes", "zz", "count", labels),
		deleteRangesCounter:       metric.NewCounter("zz_db_delete_ranges", "zz", "count", labels),
		getCounter:                metric.NewCounter("zz_db_gets", "zz", "count", labels),
		getSequenceUpdatesCounter: metric.NewCounter("zz_db_get_sequence_updates", "zz", "count", labels),
		listCounter:               metric.NewCounter("zz_db_lists", "zz", "count", labels),
		rangeScanCounter:          metric.NewCounter("zz_db_range_scans", "zz", "count", labels),
	}
	d.versionIdTracker.Store(last)
	nt := &notificationsTracker{shard: 1, kv: m, log: slog.Default(),
		readCounter:      metric.NewCounter("zz_notifications_read", "zz", "count", labels),
		readBatchCounter: metric.NewCounter("zz_notifications_read_batches", "zz", "count", labels),
		readBytesCounter: metric.NewCounter("zz_notifications_read_bytes", "zz", "count", labels),
	}
	nt.lastOffset.Store(-1)
	nt.cond = concurrent.NewConditionContext(nt)
	d.notificationsTracker = nt
	return d
}

func zzStore(m *zzKV, key string, r zzRec) {
	se := &proto.StorageEntry{VersionId: r.ver, ModificationsCount: r.mc, CreationTimestamp: r.created, ModificationTimestamp: r.created}
	b, _ := se.MarshalVT()
	m.ents = zzInsert(m.ents, key, b)
}

func zzLoad(m *zzKV, key string) (zzRec, bool) {
	_, v, _, err := m.Get(key, ComparisonEqual)
	if err != nil {
		return zzRec{}, false
	}
	se := &proto.StorageEntry{}
	_ = se.UnmarshalVT(v)
	return zzRec{true, se.VersionId, se.ModificationsCount, se.CreationTimestamp}, true
}

// zzExpected returns an expected-version pointer: kind 0 = none, 1 = symbolic value (covers -1).
func zzExpected(name string) *int64 {
	if vBool(name + ".has") {
		x := vInt64(name)
		vAssume(x >= -1)
		vAssume(x < 1000000)
		return &x
	}
	return nil
}

func zzMatches(exp *int64, r zzRec) bool {
	if exp == nil {
		return true
	}
	if !r.present {
		return *exp == -1
	}
	return *exp == r.ver
}

// ZZSpec: the real db.ProcessWrite (applyPut / applyDelete / applyDeleteRange / checkExpectedVersionId)
// against the property's sequential specification. kp1, kp2: keys of two puts (4 = absent);
// kd: key of a delete (4 = absent); rs, re: delete-range bounds as indexes into the sorted universe
// (rs = 4: no range).
func ZZSpec(kp1, kp2, kd, rs, re int) {
	m := &zzKV{}
	last := vInt64("last")
	vAssume(last >= -1)
	vAssume(last < 1000000)
	var st [4]zzRec
	for i, k := range zzKeys {
		if vBool("present") {
			st[i].present = true
			st[i].ver = vInt64("ver")
			st[i].mc = vInt64("mc")
			st[i].created = 5
			vAssume(st[i].ver >= 0)
			vAssume(st[i].ver <= last)
			vAssume(st[i].mc >= 0)
			vAssume(st[i].mc < 1000000)
			zzStore(m, k, st[i])
		}
	}
	d := zzNewDB(m, last)
	req := &proto.WriteRequest{}
	var exps []*int64
	var pkeys []int
	for _, kp := range []int{kp1, kp2} {
		if kp < 4 {
			e := zzExpected("putExp")
			exps = append(exps, e)
			pkeys = append(pkeys, kp)
			req.Puts = append(req.Puts, &proto.PutRequest{Key: zzKeys[kp], Value: []byte("v"), ExpectedVersionId: e})
		}
	}
	var dexp *int64
	if kd < 4 {
		dexp = zzExpected("delExp")
		req.Deletes = append(req.Deletes, &proto.DeleteRequest{Key: zzKeys[kd], ExpectedVersionId: dexp})
	}
	sorted := []string{"a", "b", "a/b", "a/c", "c/"} // slash order
	if rs < 4 {
		req.DeleteRanges = append(req.DeleteRanges, &proto.DeleteRangeRequest{StartInclusive: sorted[rs], EndExclusive: sorted[re]})
	}
	const ts = 1000
	res, err := d.ProcessWrite(req, 7, ts, NoOpCallback)
	vAssert("no-error", err == nil)
	if err != nil {
		return
	}

	// ---- reference: puts, then deletes, then ranges, each seeing the earlier ones
	next := last
	for i, kp := range pkeys {
		pr := res.Puts[i]
		ok := zzMatches(exps[i], st[kp])
		vAssert("put-status-iff-expected-version-matches", (pr.Status == proto.Status_OK) == ok)
		if !ok {
			vAssert("put-rejected-status", pr.Status == proto.Status_UNEXPECTED_VERSION_ID)
			continue
		}
		next++
		vAssert("put-version-strictly-increasing", pr.Version.VersionId == next)
		vAssert("put-version-above-all-earlier", pr.Version.VersionId > last)
		if st[kp].present {
			vAssert("put-modcount-incremented", pr.Version.ModificationsCount == st[kp].mc+1)
			vAssert("put-created-ts-kept", pr.Version.CreatedTimestamp == st[kp].created)
			st[kp].mc++
		} else {
			vAssert("put-modcount-zero-on-create", pr.Version.ModificationsCount == 0)
			vAssert("put-created-ts-set", pr.Version.CreatedTimestamp == ts)
			st[kp].mc = 0
			st[kp].created = ts
		}
		vAssert("put-modified-ts", pr.Version.ModifiedTimestamp == ts)
		st[kp].present = true
		st[kp].ver = next
	}
	if kd < 4 {
		dr := res.Deletes[0]
		switch {
		case !zzMatches(dexp, st[kd]):
			vAssert("delete-bad-version", dr.Status == proto.Status_UNEXPECTED_VERSION_ID)
		case !st[kd].present:
			vAssert("delete-absent-not-found", dr.Status == proto.Status_KEY_NOT_FOUND)
		default:
			vAssert("delete-ok", dr.Status == proto.Status_OK)
			st[kd].present = false
		}
	}
	if rs < 4 {
		vAssert("range-ok", res.DeleteRanges[0].Status == proto.Status_OK)
		for i, k := range zzKeys {
			pos := 0
			for j, sk := range sorted {
				if sk == k {
					pos = j
				}
			}
			if pos >= rs && pos < re {
				st[i].present = false
			}
		}
	}
	// ---- final state equals the reference
	for i, k := range zzKeys {
		got, ok := zzLoad(m, k)
		vAssert("final-presence", ok == st[i].present)
		if ok {
			vAssert("final-version", got.ver == st[i].ver)
			vAssert("final-modcount", got.mc == st[i].mc)
			vAssert("final-created", got.created == st[i].created)
		}
	}
	co, err := d.ReadCommitOffset()
	vAssert("commit-offset-stored", err == nil && co == 7)
	lv, err := d.readLastVersionId()
	vAssert("last-version-stored", err == nil && lv == next)
	vAssert("tracker-matches-stored", d.versionIdTracker.Load() == next)
	vObserve("assigned", next-last)
	vReach("end")
}
