package kv

// Pebble's documented Comparer contract, checked for the functions oxia installs in
// OxiaSlashSpanComparer, under oxia's own Compare.

func ZZSeparator(la, lb int) {
	a := vBytes("a", la)
	b := vBytes("b", lb)
	cmp := OxiaSlashSpanComparer.Compare
	vAssume(cmp(a, b) < 0)
	sep := OxiaSlashSpanComparer.Separator(nil, a, b)
	vObserveB("sep", sep)
	vAssert("separator>=a", cmp(a, sep) <= 0)
	vAssert("separator<b", cmp(sep, b) < 0)
	vReach("end")
}

func ZZSuccessor(la int) {
	a := vBytes("a", la)
	cmp := OxiaSlashSpanComparer.Compare
	succ := OxiaSlashSpanComparer.Successor(nil, a)
	vObserveB("succ", succ)
	vAssert("successor>=a", cmp(a, succ) <= 0)
	vReach("end")
}

func ZZImmediateSuccessor(la int) {
	a := vBytes("a", la)
	cmp := OxiaSlashSpanComparer.Compare
	is := OxiaSlashSpanComparer.ImmediateSuccessor(nil, a)
	vObserveB("imm", is)
	vAssert("immediate-successor>a", cmp(a, is) < 0)
	vReach("end")
}

func ZZAbbreviated(la, lb int) {
	a := vBytes("a", la)
	b := vBytes("b", lb)
	cmp := OxiaSlashSpanComparer.Compare
	ka := OxiaSlashSpanComparer.AbbreviatedKey(a)
	kb := OxiaSlashSpanComparer.AbbreviatedKey(b)
	c := cmp(a, b)
	if ka < kb {
		vAssert("abbrev-lt-implies-lt", c < 0)
	}
	if ka > kb {
		vAssert("abbrev-gt-implies-gt", c > 0)
	}
	vAssert("equal-consistent", OxiaSlashSpanComparer.Equal(a, b) == (c == 0))
	vReach("end")
}
