package kv

import (
	"github.com/oxia-db/oxia/proto"
)

// zzEntry builds the write request of a log entry from a small menu.
func zzEntry(kind int) *proto.WriteRequest {
	pk := "pk"
	m1 := int64(-1)
	switch kind {
	case 0:
		return &proto.WriteRequest{Puts: []*proto.PutRequest{{Key: "a", Value: []byte("v")}}}
	case 1:
		return &proto.WriteRequest{Puts: []*proto.PutRequest{{Key: "a/b", Value: []byte("v"), ExpectedVersionId: &m1}}}
	case 2:
		return &proto.WriteRequest{Deletes: []*proto.DeleteRequest{{Key: "a"}}}
	case 3:
		return &proto.WriteRequest{DeleteRanges: []*proto.DeleteRangeRequest{{StartInclusive: "a/", EndExclusive: "a/c"}}}
	case 4:
		return &proto.WriteRequest{Puts: []*proto.PutRequest{{Key: "p", Value: []byte("v"), PartitionKey: &pk, SequenceKeyDelta: []uint64{1}}}}
	default:
		return &proto.WriteRequest{Puts: []*proto.PutRequest{{Key: "b", Value: []byte("v")}, {Key: "a", Value: []byte("w")}}}
	}
}

func zzOpen(m *zzKV) DB {
	d, err := NewDB("zz", 1, &zzFactory{kv: m}, 0, &zzClock{0})
	vAssert("open-ok", err == nil)
	return d
}

// zzSameState: two replicas expose identical state: same keys, same record metadata, same
// notification batches, same commit offset and last version id.
func zzSameState(a, b *zzKV, da, db_ DB) {
	vAssert("same-number-of-keys", len(a.ents) == len(b.ents))
	if len(a.ents) != len(b.ents) {
		return
	}
	for i := range a.ents {
		vAssert("same-keys", a.ents[i].k == b.ents[i].k)
		k := a.ents[i].k
		if len(k) > 21 && k[:21] == "__oxia/notifications/" {
			na, nb := &proto.NotificationBatch{}, &proto.NotificationBatch{}
			_ = na.UnmarshalVT(a.ents[i].v)
			_ = nb.UnmarshalVT(b.ents[i].v)
			vAssert("same-notification-offset", na.Offset == nb.Offset)
			vAssert("same-notification-timestamp", na.Timestamp == nb.Timestamp)
			vAssert("same-notification-count", len(na.Notifications) == len(nb.Notifications))
			for nk, x := range na.Notifications {
				y := nb.Notifications[nk]
				vAssert("same-notification-key", y != nil)
				if y != nil {
					vAssert("same-notification-type", x.Type == y.Type)
					if x.VersionId != nil {
						vAssert("same-notification-version", y.VersionId != nil && *x.VersionId == *y.VersionId)
					}
				}
			}
			continue
		}
		if k == commitOffsetKey || k == commitLastVersionIdKey {
			continue // compared through the accessors below
		}
		ra, _ := zzLoad(a, k)
		rb, _ := zzLoad(b, k)
		vAssert("same-version-id", ra.ver == rb.ver)
		vAssert("same-modification-count", ra.mc == rb.mc)
		vAssert("same-created-timestamp", ra.created == rb.created)
	}
	ca, _ := da.ReadCommitOffset()
	cb, _ := db_.ReadCommitOffset()
	vAssert("same-commit-offset", ca == cb)
	la, _ := da.(*db).readLastVersionId()
	lb, _ := db_.(*db).readLastVersionId()
	vAssert("same-last-version-id", la == lb)
	vAssert("same-in-memory-version-counter", da.(*db).versionIdTracker.Load() == db_.(*db).versionIdTracker.Load())
}

// ZZReplayEq (C06/C07): replica A applies entries e0,e1,e2 live. Replica B applies the same log but is
// flushed after `flushed` entries, crashes after `crashAt` entries (losing every batch after the
// flush; crashAt = 3 with flushed = 3: clean restart at the end is a no-op), reopens through the real
// NewDB, reads its commit offset and replays from commit offset + 1. States and responses must be equal.
func ZZReplayEq(e0, e1, e2, flushed, crashAt int) {
	kinds := []int{e0, e1, e2}
	// every entry carries its own timestamp, chosen by whoever was leader: NOT necessarily increasing
	tss := make([]uint64, len(kinds))
	for i := range tss {
		tss[i] = vUint64("ts")
		vAssume(tss[i] < 1<<40)
	}
	ma, mb := &zzKV{}, &zzKV{}
	da, dbb := zzOpen(ma), zzOpen(mb)
	var ra, rb [3]*proto.WriteResponse
	for i, k := range kinds {
		r, err := da.ProcessWrite(zzEntry(k), int64(i), tss[i], NoOpCallback)
		vAssert("live-apply-ok", err == nil)
		ra[i] = r
	}
	for i := 0; i < crashAt; i++ {
		r, err := dbb.ProcessWrite(zzEntry(kinds[i]), int64(i), tss[i], NoOpCallback)
		vAssert("apply-ok", err == nil)
		rb[i] = r
		if i+1 == flushed {
			_ = mb.Flush()
		}
	}
	if flushed == 0 {
		mb.durable = nil
	}
	mb.zzCrash()
	dbb = zzOpen(mb)
	c, err := dbb.ReadCommitOffset()
	vAssert("commit-offset-readable", err == nil)
	vAssert("commit-offset-is-last-durable-entry", c == int64(flushed)-1)
	vAssert("commit-offset-not-ahead-of-log", c < 3)
	for i := int(c) + 1; i < 3; i++ {
		r, err := dbb.ProcessWrite(zzEntry(kinds[i]), int64(i), tss[i], NoOpCallback)
		vAssert("replay-apply-ok", err == nil)
		rb[i] = r
	}
	zzSameState(ma, mb, da, dbb)
	for i := 0; i < 3; i++ {
		if ra[i] == nil || rb[i] == nil {
			continue
		}
		vAssert("same-put-count", len(ra[i].Puts) == len(rb[i].Puts))
		for j := range ra[i].Puts {
			pa, pb := ra[i].Puts[j], rb[i].Puts[j]
			vAssert("same-put-status", pa.Status == pb.Status)
			if pa.Version != nil && pb.Version != nil {
				vAssert("same-put-version", pa.Version.VersionId == pb.Version.VersionId)
				vAssert("same-put-modcount", pa.Version.ModificationsCount == pb.Version.ModificationsCount)
			}
			if pa.Key != nil {
				vAssert("same-generated-key", pb.Key != nil && *pa.Key == *pb.Key)
			}
		}
		for j := range ra[i].Deletes {
			vAssert("same-delete-status", ra[i].Deletes[j].Status == rb[i].Deletes[j].Status)
		}
	}
	vReach("end")
}
