package kv

import (
	"context"
)

// ZZSeqSubscriber (C16): a sequence-update subscriber (real sequenceWaiterTracker + overrideChannel)
// receives while a writer publishes k generated keys and (closeIt = 1) the subscriber closes itself
// concurrently. No deadlock, no send on a closed channel, values are observed in publication order,
// and — when the subscriber stays — the last value it sees after the writer finished is the latest key.
func ZZSeqSubscriber(k, closeIt int) {
	tr := NewSequencesWaitTracker()
	sw := tr.AddSequenceWaiter("p")
	keys := []string{"p-1", "p-2", "p-3", "p-4"}
	wdone := make(chan bool, 1)
	vGo("writer", func() {
		for i := 0; i < k; i++ {
			tr.SequenceUpdated("p", keys[i])
		}
		wdone <- true
	})
	last := -1
	idx := func(s string) int {
		for i, x := range keys {
			if x == s {
				return i
			}
		}
		return -2
	}
	if closeIt == 1 {
		vGo("closer", func() { _ = sw.Close() })
	}
	// read while the writer runs
	finished := false
	for !finished {
		select {
		case v, ok := <-sw.Ch():
			if !ok {
				finished = true
				break
			}
			i := idx(v)
			vAssert("observed-in-publication-order", i > last)
			last = i
		case <-wdone:
			finished = true
		}
	}
	if closeIt == 0 {
		// drain what is left: the subscriber "eventually observes the latest generated key"
		select {
		case v := <-sw.Ch():
			i := idx(v)
			vAssert("observed-in-publication-order", i > last)
			last = i
		default:
		}
		vAssert("eventually-observes-the-latest", last == k-1)
		_, cerr := sw.Receive(zzDone())
		vAssert("nothing-stale-left", cerr != nil)
	}
	vReach("end")
}

type zzDoneCtx struct {
	context.Context
	ch chan struct{}
}

func (c zzDoneCtx) Done() <-chan struct{} { return c.ch }
func (c zzDoneCtx) Err() error            { return context.Canceled }

func zzDone() context.Context {
	ch := make(chan struct{})
	close(ch)
	return zzDoneCtx{context.Background(), ch}
}
