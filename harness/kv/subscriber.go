package kv

import (
	"context"

	"github.com/oxia-db/oxia/proto"
)

// ZZSeqSubscriber (C16): a sequence-update subscriber (real sequenceWaiterTracker + overrideChannel)
// receives while a writer publishes k generated keys and (closeIt = 1) the subscriber closes itself
// concurrently. No deadlock, no send on a closed channel, values are observed in publication order,
// and — when the subscriber stays — the last value it sees after the writer finished is the latest key.
func ZZSeqSubscriber(k, closeIt int) {
	tr := NewSequencesWaitTracker()
	sw := tr.AddSequenceWaiter("p")
	keys := []string{"p-1", "p-2", "p-3", "p-4"}
	wdone := make(chan bool, 1)
	vGo("writer", func() {
		for i := 0; i < k; i++ {
			tr.SequenceUpdated("p", keys[i])
		}
		wdone <- true
	})
	last := -1
	idx := func(s string) int {
		for i, x := range keys {
			if x == s {
				return i
			}
		}
		return -2
	}
	if closeIt == 1 {
		vGo("closer", func() { _ = sw.Close() })
	}
	// read while the writer runs
	finished := false
	for !finished {
		select {
		case v, ok := <-sw.Ch():
			if !ok {
				finished = true
				break
			}
			i := idx(v)
			vAssert("observed-in-publication-order", i > last)
			last = i
		case <-wdone:
			finished = true
		}
	}
	if closeIt == 0 {
		// drain what is left: the subscriber "eventually observes the latest generated key"
		select {
		case v := <-sw.Ch():
			i := idx(v)
			vAssert("observed-in-publication-order", i > last)
			last = i
		default:
		}
		vAssert("eventually-observes-the-latest", last == k-1)
		_, cerr := sw.Receive(zzDone())
		vAssert("nothing-stale-left", cerr != nil)
	}
	vReach("end")
}

type zzDoneCtx struct {
	context.Context
	ch chan struct{}
}

func (c zzDoneCtx) Done() <-chan struct{} { return c.ch }
func (c zzDoneCtx) Err() error            { return context.Canceled }

func zzDone() context.Context {
	ch := make(chan struct{})
	close(ch)
	return zzDoneCtx{context.Background(), ch}
}

// ZZSeqChurn (C16): subscriber churn on the real sequenceWaiterTracker. A symbolic program of `steps`
// steps over up to 4 subscribers on two prefixes: subscribe (to "p" or "q"), close one, or publish the
// next key of a prefix. Model: after every publication each LIVE subscriber of that prefix — and nobody
// else — must find exactly that key as its latest value; a closed subscriber's channel is closed; closing
// or adding other subscribers never disconnects a live one.
func ZZSeqChurn(steps int) {
	tr := NewSequencesWaitTracker()
	const maxS = 4
	var subs [maxS]*sequenceWaiter
	var prefix [maxS]string
	var live [maxS]bool
	var expect [maxS]string // latest value published to that subscriber and not yet read
	n := 0
	seq := map[string]int{"p": 0, "q": 0}
	names := map[string][]string{"p": {"p-1", "p-2", "p-3", "p-4", "p-5", "p-6"}, "q": {"q-1", "q-2", "q-3", "q-4", "q-5", "q-6"}}
	for s := 0; s < steps; s++ {
		switch vChoice("op", 3) {
		case 0: // subscribe
			vAssume(n < maxS)
			pf := "p"
			if vBool("other-prefix") {
				pf = "q"
			}
			subs[n] = tr.AddSequenceWaiter(pf)
			prefix[n] = pf
			live[n] = true
			n++
		case 1: // close one live subscriber
			i := vChoice("which", maxS)
			vAssume(i < n && live[i])
			_ = subs[i].Close()
			live[i] = false
		case 2: // the DB generated a new key under a prefix
			pf := "p"
			if vBool("other-prefix") {
				pf = "q"
			}
			k := names[pf][seq[pf]]
			seq[pf]++
			tr.SequenceUpdated(pf, k)
			for i := 0; i < n; i++ {
				if live[i] && prefix[i] == pf {
					expect[i] = k
				}
			}
		}
		// every live subscriber sees exactly the latest key of its prefix published since it subscribed
		for i := 0; i < n; i++ {
			if !live[i] {
				continue
			}
			select {
			case v, ok := <-subs[i].Ch():
				vAssert("live-subscriber-channel-open", ok)
				vAssert("subscriber-observes-the-latest-key-of-its-prefix", v == expect[i] && expect[i] != "")
				expect[i] = ""
			default:
				vAssert("no-update-lost", expect[i] == "")
			}
		}
	}
	_ = tr.Close()
	for i := 0; i < n; i++ {
		if live[i] {
			_, ok := <-subs[i].Ch()
			vAssert("tracker-close-closes-live-subscribers", !ok)
		}
	}
	vReach("end")
}

// ZZSeqInitial (C16): what a NEW sequence-updates subscriber is told first. The real db.GetSequenceUpdates
// on a DB that already holds generated keys of prefix "p" (kinds as in ZZSeqGenerate: one suffix, two
// suffixes, a suffix above 2^63, an ordinary record that merely looks like a member) must hand the
// subscriber the HIGHEST generated key of that prefix straight away — "a subscriber always eventually
// observes the latest generated key" also when no further key is ever generated.
func ZZSeqInitial(kind int) {
	m := zzSeqState(kind)
	d := zzNewDB(m, 10)
	keys, last := zzSeqExisting(kind)
	want := ""
	if len(keys) > 0 && last != nil {
		want = keys[len(keys)-1]
	}
	sw, err := d.GetSequenceUpdates("p")
	vAssert("subscribed", err == nil)
	if err != nil {
		return
	}
	got := ""
	select {
	case got = <-sw.Ch():
	default:
	}
	if last == nil {
		vReach("no-generated-key")
	} else {
		vAssert("new-subscriber-is-told-the-latest-generated-key", got == want)
	}
	_ = sw.Close()
	vReach("end")
}

// ZZSeqNotify (C16): a subscriber of prefix "p" is told about every key generated AFTER it subscribed, with
// notifications enabled or disabled on the shard (notif), for one sequence put or a batch of two plus an
// ordinary put: after the request the subscriber's latest value is the latest generated key of its prefix.
func ZZSeqNotify(kind, notif, two int) {
	m := zzSeqState(kind)
	d := zzNewDB(m, 10)
	d.EnableNotifications(notif == 1)
	sw, err := d.GetSequenceUpdates("p")
	vAssert("subscribed", err == nil)
	select {
	case <-sw.Ch(): // whatever existed before
	default:
	}
	pk := "pk"
	_, last := zzSeqExisting(kind)
	nd := len(last)
	if nd == 0 {
		nd = 1
	}
	mk := func(first uint64) *proto.PutRequest {
		r := &proto.PutRequest{Key: "p", Value: []byte("v"), PartitionKey: &pk, SequenceKeyDelta: []uint64{first}}
		for i := 1; i < nd; i++ {
			r.SequenceKeyDelta = append(r.SequenceKeyDelta, 1)
		}
		return r
	}
	req := &proto.WriteRequest{Puts: []*proto.PutRequest{mk(2)}}
	if two == 1 {
		req.Puts = append(req.Puts, mk(3), &proto.PutRequest{Key: "plain", Value: []byte("v")})
	}
	res, err := d.ProcessWrite(req, 7, 1000, NoOpCallback)
	vAssert("no-infrastructure-error", err == nil)
	if err != nil {
		return
	}
	want := ""
	for _, pr := range res.Puts[:1+two] {
		if pr.Status == proto.Status_OK && pr.Key != nil {
			want = *pr.Key
		}
	}
	got := ""
	select {
	case got = <-sw.Ch():
	default:
	}
	vAssert("subscriber-is-told-the-latest-generated-key", want != "" && got == want)
	_ = sw.Close()
	vReach("end")
}
