package kv

import (
	"github.com/oxia-db/oxia/proto"
)

// ZZNoInfraError: request shapes a client can put on the wire (nothing validates them before they are
// appended to the log) must come back from the real ProcessWrite as per-operation statuses, never as
// an error, because an error stops followers from applying the log and nodes from becoming leader.
func ZZNoInfraError(shape int) {
	kind := 1
	if shape == 4 {
		kind = 2
	}
	if shape == 5 {
		kind = 4
	}
	if shape == 7 {
		kind = 3
	}
	m := zzSeqState(kind)
	d := zzNewDB(m, 10)
	pk := "pk"
	sid := vInt64("session")
	exp := vInt64("expected")
	delta := vUint64("delta")
	req := &proto.WriteRequest{}
	seqShape := false
	switch shape {
	case 0: // plain puts with every optional field set, conditional delete, inverted and empty ranges
		req.Puts = append(req.Puts, &proto.PutRequest{Key: "o", Value: []byte("v"), SessionId: &sid, ExpectedVersionId: &exp, PartitionKey: &pk,
			SecondaryIndexes: []*proto.SecondaryIndex{{IndexName: "i", SecondaryKey: "s"}}})
		req.Puts = append(req.Puts, &proto.PutRequest{Key: "", Value: nil})
		req.Deletes = append(req.Deletes, &proto.DeleteRequest{Key: "q", ExpectedVersionId: &exp})
		req.Deletes = append(req.Deletes, &proto.DeleteRequest{Key: "missing"})
		// conditional operations on keys that do not exist, with ANY expected version a client can send (also below -1)
		exp2 := vInt64("expected-on-absent")
		req.Puts = append(req.Puts, &proto.PutRequest{Key: "absent-put", Value: []byte("v"), ExpectedVersionId: &exp2})
		req.Deletes = append(req.Deletes, &proto.DeleteRequest{Key: "absent-delete", ExpectedVersionId: &exp2})
		req.DeleteRanges = append(req.DeleteRanges, &proto.DeleteRangeRequest{StartInclusive: "q", EndExclusive: "o"})
		req.DeleteRanges = append(req.DeleteRanges, &proto.DeleteRangeRequest{StartInclusive: "", EndExclusive: ""})
	case 1: // sequence put without a partition key
		seqShape = true
		req.Puts = append(req.Puts, &proto.PutRequest{Key: "p", Value: []byte("v"), SequenceKeyDelta: []uint64{1}})
	case 2: // sequence put with an expected version
		req.Puts = append(req.Puts, &proto.PutRequest{Key: "p", Value: []byte("v"), PartitionKey: &pk, ExpectedVersionId: &exp, SequenceKeyDelta: []uint64{1}})
	case 3: // first delta arbitrary, including 0
		seqShape = true
		vAssume(delta <= 1)
		req.Puts = append(req.Puts, &proto.PutRequest{Key: "p", Value: []byte("v"), PartitionKey: &pk, SequenceKeyDelta: []uint64{delta}})
	case 4: // fewer deltas than the existing key has suffixes
		seqShape = true
		req.Puts = append(req.Puts, &proto.PutRequest{Key: "p", Value: []byte("v"), PartitionKey: &pk, SequenceKeyDelta: []uint64{1}})
	case 7: // a sequence whose current suffix is above 2^63 (reached with large but valid deltas)
		req.Puts = append(req.Puts, &proto.PutRequest{Key: "p", Value: []byte("v"), PartitionKey: &pk, SequenceKeyDelta: []uint64{1}})
	case 5: // an ordinary record "p--5" exists under the sequence prefix
		seqShape = true
		req.Puts = append(req.Puts, &proto.PutRequest{Key: "p", Value: []byte("v"), PartitionKey: &pk, SequenceKeyDelta: []uint64{1, 1}})
	}
	rangeShape := false
	if shape == 6 {
		// an ordinary-looking user range whose bounds straddle the internal key space in slash order:
		// "a" (no slash) < "__oxia/..." < "b/"
		rangeShape = true
		d.notificationsEnabled = true
		_, _ = d.ProcessWrite(&proto.WriteRequest{Puts: []*proto.PutRequest{{Key: "o", Value: []byte("v")}}}, 6, 999, NoOpCallback)
		req.DeleteRanges = append(req.DeleteRanges, &proto.DeleteRangeRequest{StartInclusive: "a", EndExclusive: "b/"})
	}
	res, err := d.ProcessWrite(req, 7, 1000, NoOpCallback)
	if vKnown("KF-C13-range-over-internal-keys", rangeShape && err != nil) {
		vAssert("per-operation-status-not-error", err == nil)
	} else if vKnown("KF-C13-sequence-request-errors", seqShape && err != nil) {
		vAssert("per-operation-status-not-error", err == nil)
	} else {
		vAssert("per-operation-status-not-error", err == nil)
	}
	if err == nil {
		vAssert("one-status-per-put", len(res.Puts) == len(req.Puts))
		vAssert("one-status-per-delete", len(res.Deletes) == len(req.Deletes))
		vAssert("one-status-per-range", len(res.DeleteRanges) == len(req.DeleteRanges))
	} else {
		// a failed request must not leave the version counter advanced (a restarted replica would differ)
		vAssert("failed-request-leaves-version-counter", d.versionIdTracker.Load() == 10)
	}
	vReach("end")
}
