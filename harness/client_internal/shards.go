package internal

import (
	"log/slog"

	"github.com/oxia-db/oxia/common/concurrent"
	"github.com/oxia-db/oxia/common/sharding"
)

func zzToShards(base int64, n int) []Shard {
	var out []Shard
	for _, s := range sharding.GenerateShards(base, uint32(n)) {
		out = append(out, Shard{Id: s.Id, Leader: "l", HashRange: hashRange(s.Min, s.Max)})
	}
	return out
}

func zzOwners(sm *shardManagerImpl, code uint32) int {
	owners := 0
	for _, s := range sm.shards {
		if s.HashRange.MinInclusive <= code {
			if code <= s.HashRange.MaxInclusive {
				owners++
			}
		}
	}
	return owners
}

// ZZClientUpdate: the real shardManagerImpl.update applied to two successive assignment messages
// (a namespace with n1 shards, then re-created / re-sharded with n2 shards under fresh ids); after each
// one the client's table is a partition and Get routes a symbolic hash code to the one owner.
func ZZClientUpdate(n1, n2, partial int) {
	code := vUint32("code")
	sm := &shardManagerImpl{
		shards:        map[int64]Shard{},
		shardStrategy: &shardStrategyImpl{hashFunc: func(string) uint32 { return code }},
		updatedWg:     concurrent.NewWaitGroup(1),
		logger:        slog.Default(),
	}
	base := vInt64("base")
	vAssume(base >= 0)
	vAssume(base < 1000000)
	first := zzToShards(base, n1)
	sm.update(first)
	vAssert("first-count", len(sm.shards) == n1)
	vAssert("first-one-owner", zzOwners(sm, code) == 1)
	id1 := sm.Get("k")
	vAssert("first-get-owner", first[id1-base].HashRange.MinInclusive <= code && code <= first[id1-base].HashRange.MaxInclusive)

	second := zzToShards(base+int64(n1), n2)
	if partial == 1 {
		// a leader-only refresh of the same shards precedes the re-sharding
		sm.update(first)
		vAssert("refresh-count", len(sm.shards) == n1)
	}
	sm.update(second)
	vObserve("table-size", int64(len(sm.shards)))
	vAssert("second-count", len(sm.shards) == n2)
	vAssert("second-one-owner", zzOwners(sm, code) == 1)
	id2 := sm.Get("k")
	vAssert("second-get-is-new-shard", id2 >= base+int64(n1))
	s2 := second[id2-base-int64(n1)]
	vAssert("second-get-owner", s2.HashRange.MinInclusive <= code && code <= s2.HashRange.MaxInclusive)
	vReach("end")
}

// ZZOverlap: overlap() is exactly "the two inclusive ranges share a hash code".
func ZZOverlap() {
	a := hashRange(vUint32("amin"), vUint32("amax"))
	b := hashRange(vUint32("bmin"), vUint32("bmax"))
	vAssume(a.MinInclusive <= a.MaxInclusive)
	vAssume(b.MinInclusive <= b.MaxInclusive)
	x := vUint32("x")
	inA := a.MinInclusive <= x && x <= a.MaxInclusive
	inB := b.MinInclusive <= x && x <= b.MaxInclusive
	ov := overlap(a, b)
	if inA {
		if inB {
			vAssert("common-point-implies-overlap", ov)
		}
	}
	// and conversely: if they overlap, max(mins) is a common point
	if ov {
		m := a.MinInclusive
		if b.MinInclusive > m {
			m = b.MinInclusive
		}
		vAssert("overlap-has-witness", a.MinInclusive <= m && m <= a.MaxInclusive && b.MinInclusive <= m && m <= b.MaxInclusive)
	}
	vAssert("symmetric", ov == overlap(b, a))
	vReach("end")
}
