package internal

import (
	"context"
	"io"
	"time"

	"google.golang.org/grpc"

	"github.com/oxia-db/oxia/proto"
)

// ---- model of the server's GetShardAssignments stream: delivers the maps the harness releases, in order; a
// broken stream ends with an error; a new stream starts with the then-current map (what the dispatcher does)

type zzAssignSrv struct {
	current *proto.ShardAssignments
	streams []*zzAssignStream
	opened  chan int
}

type zzAssignStream struct {
	grpc.ClientStream
	ctx    context.Context
	in     chan *proto.ShardAssignments
	broken chan struct{}
}

func (s *zzAssignStream) Recv() (*proto.ShardAssignments, error) {
	select {
	case a := <-s.in:
		return a, nil
	case <-s.broken:
		return nil, io.ErrUnexpectedEOF
	case <-s.ctx.Done():
		return nil, s.ctx.Err()
	}
}

type zzAssignClient struct {
	proto.OxiaClientClient
	srv *zzAssignSrv
	ns  string
}

func (c *zzAssignClient) GetShardAssignments(ctx context.Context, in *proto.ShardAssignmentsRequest, _ ...grpc.CallOption) (proto.OxiaClient_GetShardAssignmentsClient, error) {
	vAssert("client-asks-for-its-namespace", in.Namespace == c.ns)
	st := &zzAssignStream{ctx: ctx, in: make(chan *proto.ShardAssignments, 4), broken: make(chan struct{})}
	st.in <- c.srv.current
	c.srv.streams = append(c.srv.streams, st)
	c.srv.opened <- len(c.srv.streams)
	return st, nil
}

type zzAssignPool struct {
	zzExecPool
	c *zzAssignClient
}

func (p *zzAssignPool) GetClientRpc(string) (proto.OxiaClientClient, error) { return p.c, nil }

func zzNsMap(ns string, base int64, n int, leader string, extraNs bool) *proto.ShardAssignments {
	a := &proto.ShardAssignments{Namespaces: map[string]*proto.NamespaceShardsAssignment{}}
	mk := func(base int64, n int, leader string) *proto.NamespaceShardsAssignment {
		r := &proto.NamespaceShardsAssignment{ShardKeyRouter: proto.ShardKeyRouter_XXHASH3}
		step := uint64(1<<32) / uint64(n)
		for i := 0; i < n; i++ {
			lo, hi := uint32(uint64(i)*step), uint32(uint64(i+1)*step-1)
			if i == n-1 {
				hi = 0xffffffff
			}
			r.Assignments = append(r.Assignments, &proto.ShardAssignment{Shard: base + int64(i), Leader: leader,
				ShardBoundaries: &proto.ShardAssignment_Int32HashRange{Int32HashRange: &proto.Int32HashRange{MinHashInclusive: lo, MaxHashInclusive: hi}}})
		}
		return r
	}
	a.Namespaces[ns] = mk(base, n, leader)
	if extraNs {
		a.Namespaces["other"] = mk(900, 1, "x")
	}
	return a
}

// ZZClientShardStream (C18, client side end to end): the REAL NewShardManager (start / receiveWithRecovery / receive /
// update) fed by a model of the server's assignment stream: the initial map (n1 shards led by l1), a leader change,
// a stream break during which the namespace is re-created with n2 shards under fresh ids and another leader, the
// reconnect. After every map the client has digested: for a SYMBOLIC hash code exactly one shard of its table owns
// it, that shard and its leader are the ones of the latest map (never a shard id that no longer exists), and GetAll
// lists exactly the latest map's shards.
func ZZClientShardStream(n1, n2 int) {
	code := vUint32("code")
	srv := &zzAssignSrv{current: zzNsMap("ns", 0, n1, "l1", true), opened: make(chan int, 4)}
	pool := &zzAssignPool{c: &zzAssignClient{srv: srv, ns: "ns"}}
	sm0, err := NewShardManager(&shardStrategyImpl{hashFunc: func(string) uint32 { return code }}, pool, "svc", "ns", 30*time.Second)
	vAssert("initial-map-received", err == nil)
	if err != nil {
		return
	}
	sm := sm0.(*shardManagerImpl)
	<-srv.opened
	check := func(tag string, base int64, n int, leader string) {
		sm.RLock()
		cnt := len(sm.shards)
		sm.RUnlock()
		vAssert(tag+":table-is-exactly-the-latest-map", cnt == n)
		vAssert(tag+":one-owner", zzOwners(sm, code) == 1)
		id := sm.Get("k")
		vAssert(tag+":owner-is-a-shard-of-the-latest-map", id >= base && id < base+int64(n))
		vAssert(tag+":leader-of-the-latest-map", sm.Leader(id) == leader)
		vAssert(tag+":get-all", len(sm.GetAll()) == n)
	}
	check("initial", 0, n1, "l1")
	// leader change pushed on the live stream
	srv.current = zzNsMap("ns", 0, n1, "l2", false)
	srv.streams[0].in <- srv.current
	for i := 0; i < 8 && sm.Leader(sm.Get("k")) != "l2"; i++ {
		vYield("client-digests-the-update")
		vSettle(5)
	}
	vAssume(sm.Leader(sm.Get("k")) == "l2") // schedules in which the client has digested the update
	check("leader-change", 0, n1, "l2")
	// the connection drops; meanwhile the namespace is re-created with n2 shards
	srv.current = zzNsMap("ns", 100, n2, "l3", true)
	close(srv.streams[0].broken)
	<-srv.opened
	for i := 0; i < 8 && sm.Leader(sm.Get("k")) != "l3"; i++ {
		vYield("client-digests-the-new-map")
		vSettle(5)
	}
	vAssume(sm.Leader(sm.Get("k")) == "l3")
	check("after-reconnect", 100, n2, "l3")
	_ = sm.Close()
	vReach("end")
}
