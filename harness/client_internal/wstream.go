package internal

import (
	"context"
	"io"

	"google.golang.org/grpc"

	"github.com/oxia-db/oxia/proto"
)

// model of the per-shard write stream: the leader answers the requests in the order it received them, one
// answer whenever the harness lets it; an answer names the request it belongs to (the version id).
type zzWStream struct {
	grpc.ClientStream
	ctx      context.Context
	received []int64
	answered int
	out      chan *proto.WriteResponse
	onWire   chan int64
}

func (s *zzWStream) Context() context.Context { return s.ctx }
func (s *zzWStream) Send(r *proto.WriteRequest) error {
	s.received = append(s.received, *r.Puts[0].ExpectedVersionId)
	s.onWire <- *r.Puts[0].ExpectedVersionId
	return nil
}
func (s *zzWStream) Recv() (*proto.WriteResponse, error) {
	select {
	case r := <-s.out:
		return r, nil
	case <-s.ctx.Done():
		return nil, io.EOF
	}
}
func (s *zzWStream) answerNext() {
	id := s.received[s.answered]
	s.answered++
	s.out <- &proto.WriteResponse{Puts: []*proto.PutResponse{{Status: proto.Status_OK, Version: &proto.Version{VersionId: id}}}}
}

// ZZWriteStream (C20): the real streamWrapper (Send / handleResponses / handleStreamClosed goroutines) of the
// client's write path. k callers send one request each, in order; a symbolic subset of them gives up before
// its answer arrives (its context ends: request timeout); the leader answers every request, in order,
// possibly late. A caller that gets a response gets the response to ITS OWN request — never the late answer
// to a request somebody else gave up on — and a caller that gave up gets its context's error.
func ZZWriteStream(k int) {
	sctx, closeStream := context.WithCancel(context.Background())
	st := &zzWStream{ctx: sctx, out: make(chan *proto.WriteResponse, 8), onWire: make(chan int64, 8)}
	sw := newStreamWrapper(1, st)
	type outcome struct {
		res *proto.WriteResponse
		err error
	}
	for i := 0; i < k; i++ {
		id := int64(100 + i)
		ctx, giveUp := context.WithCancel(context.Background())
		done := make(chan outcome, 1)
		vGo("caller", func() {
			r, err := sw.Send(ctx, &proto.WriteRequest{Puts: []*proto.PutRequest{{Key: "k", ExpectedVersionId: &id}}})
			done <- outcome{r, err}
		})
		<-st.onWire // the request is on the wire
		gaveUp := vBool("caller-gives-up-before-the-answer")
		if gaveUp {
			giveUp()
		} else if len(st.received) > st.answered {
			// the leader catches up: it answers everything it has received so far, in order
			for st.answered < len(st.received) {
				st.answerNext()
			}
		}
		o := <-done
		if o.err == nil {
			vAssert("caller-gets-the-response-to-its-own-request", o.res != nil && o.res.Puts[0].Version.VersionId == id)
		} else {
			vAssert("only-a-caller-that-gave-up-fails", gaveUp)
		}
		giveUp()
	}
	closeStream()
	vReach("end")
}
