package internal

import (
	"context"
	"errors"
	"io"

	"google.golang.org/grpc"
	"google.golang.org/grpc/health/grpc_health_v1"
	"google.golang.org/grpc/metadata"

	"github.com/oxia-db/oxia/proto"
)

// ---- model servers behind the client's connection pool: every write stream a client opens is recorded with the
// server it was opened on and the (shard, namespace) headers it carries; a server answers a request with the
// request's own id and the id of the shard the STREAM was opened for.

type zzExecStream struct {
	grpc.ClientStream
	ctx     context.Context
	cancel  context.CancelFunc
	server  string
	shardMD string
	nsMD    string
	in      chan *proto.WriteRequest
	broken  bool
	got     int
}

func (s *zzExecStream) Context() context.Context { return s.ctx }
func (s *zzExecStream) Send(r *proto.WriteRequest) error {
	if s.broken {
		return io.ErrClosedPipe
	}
	s.got++
	s.in <- r
	return nil
}
func (s *zzExecStream) Recv() (*proto.WriteResponse, error) {
	select {
	case r := <-s.in:
		// the server processes the request on the shard named by the stream's header
		v := *r.Puts[0].ExpectedVersionId
		k := s.shardMD
		return &proto.WriteResponse{Puts: []*proto.PutResponse{{Status: proto.Status_OK, Key: &k, Version: &proto.Version{VersionId: v}}}}, nil
	case <-s.ctx.Done():
		return nil, io.EOF
	}
}

// kill: the connection drops — gRPC ends the stream (Recv fails) and cancels its context
func (s *zzExecStream) kill() {
	s.broken = true
	s.cancel()
}

type zzExecClient struct {
	proto.OxiaClientClient
	name string
	pool *zzExecPool
}

func (c *zzExecClient) WriteStream(ctx context.Context, _ ...grpc.CallOption) (proto.OxiaClient_WriteStreamClient, error) {
	md, _ := metadata.FromOutgoingContext(ctx)
	sctx, cancel := context.WithCancel(ctx)
	st := &zzExecStream{ctx: sctx, cancel: cancel, server: c.name, in: make(chan *proto.WriteRequest, 4)}
	if v := md.Get("shard-id"); len(v) == 1 {
		st.shardMD = v[0]
	}
	if v := md.Get("namespace"); len(v) == 1 {
		st.nsMD = v[0]
	}
	c.pool.streams = append(c.pool.streams, st)
	return st, nil
}

type zzExecPool struct {
	streams []*zzExecStream
}

func (p *zzExecPool) Close() error { return nil }
func (p *zzExecPool) GetClientRpc(target string) (proto.OxiaClientClient, error) {
	return &zzExecClient{name: target, pool: p}, nil
}
func (p *zzExecPool) GetHealthRpc(string) (grpc_health_v1.HealthClient, io.Closer, error) {
	return nil, nil, errors.New("zz")
}
func (p *zzExecPool) GetCoordinationRpc(string) (proto.OxiaCoordinationClient, error) {
	return nil, errors.New("zz")
}
func (p *zzExecPool) GetReplicationRpc(string) (proto.OxiaLogReplicationClient, error) {
	return nil, errors.New("zz")
}
func (p *zzExecPool) Clear(string) {}

type zzExecSM struct{ leaders map[int64]string }

func (m *zzExecSM) Close() error          { return nil }
func (m *zzExecSM) Get(string) int64      { return 0 }
func (m *zzExecSM) GetAll() []int64       { return nil }
func (m *zzExecSM) Leader(s int64) string { return m.leaders[s] }

// ZZExecutorWrite (C20 transparency of the transport, C18 "client and server agree on the shard"): the REAL
// executorImpl.ExecuteWrite / writeStream (per-shard stream cache) + streamWrapper over model servers. Writes for two
// shards (5, led by l0, and 7, led by l1) are interleaved; after `breakAfter` writes the connection of shard 5's
// stream drops and — when moved = 1 — shard 5's leader becomes l1. Every write that returns a response gets the
// response to ITS OWN request, processed by ITS OWN shard (the stream's shard header equals the request's shard,
// the namespace header is the executor's), on the server that leads that shard at the time the stream was opened;
// a write after the break goes out on a NEW stream to the current leader; streams are re-used while healthy (one
// per shard); a failure is an error to the caller, never somebody else's answer.
func ZZExecutorWrite(n, breakAfter, moved int) {
	pool := &zzExecPool{}
	sm := &zzExecSM{leaders: map[int64]string{5: "l0", 7: "l1"}}
	e := NewExecutor(context.Background(), "ns1", pool, sm, "svc").(*executorImpl)
	for i := 0; i < n; i++ {
		if i == breakAfter {
			for _, st := range pool.streams {
				if st.shardMD == "5" {
					st.kill()
				}
			}
			if moved == 1 {
				sm.leaders[5] = "l1"
			}
			vSettle(20)
		}
		shard := int64(5)
		if vBool("other-shard") {
			shard = 7
		}
		id := int64(100 + i)
		before := len(pool.streams)
		req := &proto.WriteRequest{Shard: &shard, Puts: []*proto.PutRequest{{Key: "k", ExpectedVersionId: &id}}}
		res, err := e.ExecuteWrite(context.Background(), req)
		if err != nil {
			// the only legitimate failure: the cached stream of this shard has just died and the wrapper had not
			// noticed yet — the caller gets an error (never an answer), and the retry finds a fresh stream
			vAssert("a-write-fails-only-on-the-stream-that-just-broke", res == nil && i >= breakAfter && shard == 5)
			before = len(pool.streams)
			res, err = e.ExecuteWrite(context.Background(), req)
		}
		vAssert("write-with-a-healthy-leader-succeeds", err == nil && res != nil)
		if err != nil || res == nil {
			continue
		}
		vAssert("own-response", res.Puts[0].Version.VersionId == id)
		want := "5"
		if shard == 7 {
			want = "7"
		}
		vAssert("processed-by-its-own-shard", *res.Puts[0].Key == want)
		// the stream the request went out on
		var used *zzExecStream
		for _, st := range pool.streams {
			if st.shardMD == want && !st.broken {
				used = st
			}
		}
		vAssert("stream-for-that-shard-exists", used != nil)
		if used != nil {
			vAssert("stream-carries-the-executor's-namespace", used.nsMD == "ns1")
			vAssert("stream-opened-on-the-shard's-current-leader", used.server == sm.leaders[shard])
		}
		vAssert("at-most-one-new-stream-per-write", len(pool.streams) <= before+1)
	}
	healthy := map[string]int{}
	for _, st := range pool.streams {
		if !st.broken {
			healthy[st.shardMD]++
		}
	}
	vAssert("healthy-streams-are-reused-one-per-shard", healthy["5"] <= 1 && healthy["7"] <= 1)
	vReach("end")
}
