package oxia

import (
	"context"
	"errors"

	"github.com/oxia-db/oxia/common/compare"
	obatch "github.com/oxia-db/oxia/oxia/batch"
	"github.com/oxia-db/oxia/oxia/internal/batch"
	"github.com/oxia-db/oxia/oxia/internal/model"
	"github.com/oxia-db/oxia/proto"
)

// ZZMerge (C20): the real aggregateAndSortRangeScanAcrossShards (container/heap + ResultHeap) merges
// three per-shard streams of n1, n2, n3 results, each already in slash order (symbolic 2-byte keys):
// the output contains every result exactly once, in global slash order, and the channel is closed.
func ZZMerge(n1, n2, n3 int) {
	ns := []int{n1, n2, n3}
	var chans []chan GetResult
	id := byte(0)
	total := 0
	for _, n := range ns {
		ch := make(chan GetResult, 4)
		var prev []byte
		for i := 0; i < n; i++ {
			k := vBytes("key", 2)
			if prev != nil {
				vAssume(compare.CompareWithSlash(prev, k) <= 0)
			}
			prev = k
			ch <- GetResult{Key: string(k), Value: []byte{id}}
			id++
			total++
		}
		close(ch)
		chans = append(chans, ch)
	}
	out := make(chan GetResult, 16)
	aggregateAndSortRangeScanAcrossShards(chans, out)
	seen := make([]bool, total)
	var last []byte
	cnt := 0
	for gr := range out {
		cnt++
		i := int(gr.Value[0])
		vAssert("no-duplicate", !seen[i])
		seen[i] = true
		k := []byte(gr.Key)
		if last != nil {
			vAssert("global-slash-order", compare.CompareWithSlash(last, k) <= 0)
		}
		last = k
	}
	vAssert("no-loss", cnt == total)
	vReach("end")
}

// ---- multi-shard comparison get

type zzSM struct{ ids []int64 }

func (s zzSM) Close() error         { return nil }
func (s zzSM) Get(string) int64     { return s.ids[0] }
func (s zzSM) GetAll() []int64      { return s.ids }
func (s zzSM) Leader(int64) string  { return "l" }

type zzCapture struct{ calls *[]model.GetCall }

func (c zzCapture) Close() error { return nil }
func (c zzCapture) Run()         {}
func (c zzCapture) Add(r any)    { *c.calls = append(*c.calls, r.(model.GetCall)) }

// ZZMultiGet (C20): the real doMultiShardGet over n shards; the per-shard answers (error / not found /
// found with a symbolic 1-byte key) arrive in shard order with symbolic content. Exactly one result is
// delivered, the channel is closed exactly once (a second failing shard must not send on the closed
// channel), and without errors the selected record is the floor / ceiling over all shards.
func ZZMultiGet(n, ct int) {
	var calls []model.GetCall
	ids := []int64{1, 2, 3}[:n]
	c := &clientImpl{shardManager: zzSM{ids}}
	c.readBatchManager = batch.NewManager(context.Background(), func(context.Context, *int64) obatch.Batcher { return zzCapture{&calls} })
	ch := make(chan GetResult, 4)
	opts := &getOptions{comparisonType: proto.KeyComparisonType(ct)}
	c.doMultiShardGet("k", opts, ch)
	vAssert("one-call-per-shard", len(calls) == n)
	kinds := make([]int, n)
	keys := make([]byte, n)
	anyErr := false
	found := false
	var best byte
	for i := 0; i < n; i++ {
		kinds[i] = vChoice("answer", 3)
		keys[i] = vByte("key")
		vAssume(keys[i] != '/')
		switch kinds[i] {
		case 0:
			anyErr = true
			calls[i].Callback(nil, errors.New("shard failed"))
		case 1:
			calls[i].Callback(&proto.GetResponse{Status: proto.Status_KEY_NOT_FOUND}, nil)
		default:
			ks := string([]byte{keys[i]})
			calls[i].Callback(&proto.GetResponse{Status: proto.Status_OK, Key: &ks, Version: &proto.Version{}}, nil)
			if !anyErr {
				if !found {
					best, found = keys[i], true
				} else if (ct == 1 || ct == 3) && keys[i] > best { // floor / lower: highest
					best = keys[i]
				} else if (ct == 2 || ct == 4) && keys[i] < best { // ceiling / higher: lowest
					best = keys[i]
				}
			}
		}
	}
	cnt := 0
	var res GetResult
	closed := false
	for !closed {
		select {
		case r, ok := <-ch:
			if !ok {
				closed = true
			} else {
				cnt++
				res = r
			}
		default:
			closed = true
			vAssert("channel-closed-after-all-answers", false)
		}
	}
	vAssert("exactly-one-result", cnt == 1)
	if anyErr {
		vAssert("error-reported", res.Err != nil)
	} else if !found {
		vAssert("not-found-reported", res.Err == ErrKeyNotFound)
	} else if ct != 0 {
		vAssert("selected-is-extreme-over-all-shards", res.Err == nil && res.Key[0] == best)
	}
	vReach("end")
}

// ZZMultiGetIndex (C20): the same multi-shard comparison get over a SECONDARY INDEX: every shard answers with a
// record whose secondary key (1 symbolic byte) may equal another shard's — a non-unique index — and whose primary
// key is distinct per shard. The winner is the extreme in the global (secondary key, primary key) order, whatever
// order the shards answer in (the answers are delivered in shard order and in reverse: same result).
func ZZMultiGetIndex(n, ct int) {
	run := func(reverse bool, sec []byte) (string, bool) {
		var calls []model.GetCall
		ids := []int64{1, 2, 3}[:n]
		c := &clientImpl{shardManager: zzSM{ids}}
		c.readBatchManager = batch.NewManager(context.Background(), func(context.Context, *int64) obatch.Batcher { return zzCapture{&calls} })
		ch := make(chan GetResult, 4)
		idx := "idx"
		opts := &getOptions{comparisonType: proto.KeyComparisonType(ct)}
		opts.secondaryIndexName = &idx
		c.doMultiShardGet("k", opts, ch)
		for j := 0; j < n; j++ {
			i := j
			if reverse {
				i = n - 1 - j
			}
			pk := string([]byte{byte('a' + i)})
			sk := string([]byte{sec[i]})
			calls[i].Callback(&proto.GetResponse{Status: proto.Status_OK, Key: &pk, SecondaryIndexKey: &sk, Version: &proto.Version{}}, nil)
		}
		r, ok := <-ch
		return r.Key, ok && r.Err == nil
	}
	sec := make([]byte, n)
	for i := range sec {
		sec[i] = vByte("secondary")
		vAssume(sec[i] != '/')
	}
	k1, ok1 := run(false, sec)
	k2, ok2 := run(true, sec)
	vAssert("results-delivered", ok1 && ok2)
	vAssert("winner-independent-of-arrival-order", k1 == k2)
	// reference: extreme of (secondary, primary)
	best := 0
	for i := 1; i < n; i++ {
		less := sec[i] < sec[best] || (sec[i] == sec[best] && i < best)
		greater := sec[i] > sec[best] || (sec[i] == sec[best] && i > best)
		if (ct == 1 || ct == 3) && greater {
			best = i
		}
		if (ct == 2 || ct == 4) && less {
			best = i
		}
	}
	if ok1 {
		vAssert("winner-is-the-extreme-in-(secondary,primary)-order", k1 == string([]byte{byte('a' + best)}))
	}
	vReach("end")
}
