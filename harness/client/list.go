package oxia

import (
	"context"
	"io"

	"google.golang.org/grpc"

	"github.com/oxia-db/oxia/proto"
)

type zzListStream struct {
	grpc.ClientStream
	ctx   context.Context
	keys  [][]string // chunks
	pos   int
	fails bool
}

func (s *zzListStream) Recv() (*proto.ListResponse, error) {
	if s.ctx.Err() != nil {
		return nil, s.ctx.Err() // a cancelled call ends its stream with an error
	}
	if s.fails {
		return nil, io.ErrUnexpectedEOF
	}
	if s.pos >= len(s.keys) {
		return nil, io.EOF
	}
	k := s.keys[s.pos]
	s.pos++
	return &proto.ListResponse{Keys: k}, nil
}


// ZZClientList (C20): the real clientImpl.List fan-out (one goroutine per shard writing into one unbuffered
// result channel, a closer goroutine) over `ns` shards, each answering with two chunks of keys; the caller's
// context may be cancelled while results are still being produced (when = 0: never, 1: before the call,
// 2: after the first result has been read), and shard `fail` (or none) ends its stream with an error. The
// caller reads the channel until it is closed. Whatever happens: no goroutine panics (no send on a closed
// channel), the channel is closed exactly once, and without cancellation every key of every healthy shard
// arrives exactly once and a failing shard is reported.
func ZZClientList(ns, when, fail int) {
	sm := &zzSM{}
	for i := 0; i < ns; i++ {
		sm.ids = append(sm.ids, int64(i))
	}
	ctx, cancel := context.WithCancel(context.Background())
	ex := &zzListExecutor{ctx: ctx, fail: int64(fail)}
	c := &clientImpl{shardManager: sm, executor: ex, ctx: context.Background()}
	if when == 1 {
		cancel()
	}
	ch := c.List(ctx, "a", "z")
	got := map[string]int{}
	errs := 0
	n := 0
	for r := range ch {
		n++
		if r.Err != nil {
			errs++
		}
		for _, k := range r.Keys {
			got[k]++
		}
		if when == 2 && n == 1 {
			cancel()
		}
	}
	if when == 0 {
		for i := 0; i < ns; i++ {
			if i == fail {
				continue
			}
			vAssert("every-key-of-a-healthy-shard-exactly-once", got[zzListKey(i, 0)] == 1 && got[zzListKey(i, 1)] == 1 && got[zzListKey(i, 2)] == 1)
		}
		if fail >= 0 && fail < ns {
			vAssert("failing-shard-is-reported", errs == 1)
		} else {
			vAssert("no-error-without-failure", errs == 0)
		}
	}
	vSettle(30)
	cancel()
	vReach("end")
}

func zzListKey(shard, i int) string { return string([]byte{byte('b' + shard), byte('0' + i)}) }

type zzListExecutor struct {
	ctx  context.Context
	fail int64
}

func (e *zzListExecutor) ExecuteWrite(context.Context, *proto.WriteRequest) (*proto.WriteResponse, error) {
	return nil, io.ErrClosedPipe
}
func (e *zzListExecutor) ExecuteRead(context.Context, *proto.ReadRequest) (proto.OxiaClient_ReadClient, error) {
	return nil, io.ErrClosedPipe
}
func (e *zzListExecutor) ExecuteRangeScan(context.Context, *proto.RangeScanRequest) (proto.OxiaClient_RangeScanClient, error) {
	return nil, io.ErrClosedPipe
}
func (e *zzListExecutor) ExecuteList(ctx context.Context, r *proto.ListRequest) (proto.OxiaClient_ListClient, error) {
	s := int(*r.Shard)
	return &zzListStream{ctx: ctx, fails: *r.Shard == e.fail, keys: [][]string{{zzListKey(s, 0), zzListKey(s, 1)}, {zzListKey(s, 2)}}}, nil
}

type zzScanStream struct {
	grpc.ClientStream
	ctx   context.Context
	recs  [][]string
	pos   int
	fails bool
}

func (s *zzScanStream) Recv() (*proto.RangeScanResponse, error) {
	if s.ctx.Err() != nil {
		return nil, s.ctx.Err()
	}
	if s.fails {
		return nil, io.ErrUnexpectedEOF
	}
	if s.pos >= len(s.recs) {
		return nil, io.EOF
	}
	r := &proto.RangeScanResponse{}
	for _, k := range s.recs[s.pos] {
		kk := k
		r.Records = append(r.Records, &proto.GetResponse{Status: proto.Status_OK, Key: &kk, Value: []byte(k), Version: &proto.Version{}})
	}
	s.pos++
	return r, nil
}

type zzScanExecutor struct {
	zzListExecutor
	failOpen bool
}

func (e *zzScanExecutor) ExecuteRangeScan(ctx context.Context, r *proto.RangeScanRequest) (proto.OxiaClient_RangeScanClient, error) {
	s := int(*r.Shard)
	if e.failOpen && *r.Shard == e.fail {
		return nil, io.ErrClosedPipe
	}
	return &zzScanStream{ctx: ctx, fails: *r.Shard == e.fail, recs: [][]string{{zzListKey(s, 0), zzListKey(s, 1)}, {zzListKey(s, 2)}}}, nil
}

// ZZClientScan (C20): the real clientImpl.RangeScan (per-shard goroutines, the heap merge, or the single
// shard path when a partition key is given) with a shard that may fail — on opening the stream (mode 1) or
// in the middle of it (mode 2) — and a caller that reads until the channel is closed. The channel is always
// closed (the caller never hangs), nothing panics, and without a failure every record arrives exactly once
// in global key order.
func ZZClientScan(ns, single, mode int) { zzClientScan(ns, single, mode, 0) }

// ZZClientScanCancel (C20): the same scan whose caller cancels its context after reading the first record and
// then drains the channel: a result stream that ends WITHOUT an error result must be the complete result —
// a cancelled scan may stop early, but it must say so.
func ZZClientScanCancel(ns, single int) { zzClientScan(ns, single, 0, 1) }

func zzClientScan(ns, single, mode, cancelAfterFirst int) {
	sm := &zzSM{}
	for i := 0; i < ns; i++ {
		sm.ids = append(sm.ids, int64(i))
	}
	fail := int64(-1)
	if mode != 0 {
		fail = 0
	}
	ex := &zzScanExecutor{zzListExecutor: zzListExecutor{fail: fail}, failOpen: mode == 1}
	c := &clientImpl{shardManager: sm, executor: ex, ctx: context.Background()}
	var ch <-chan GetResult
	ctx, cancel := context.WithCancel(context.Background())
	ex.ctx = ctx
	if single == 1 {
		ch = c.RangeScan(ctx, "a", "z", PartitionKey("pk"))
	} else {
		ch = c.RangeScan(ctx, "a", "z")
	}
	n, errs := 0, 0
	last := ""
	for r := range ch {
		if cancelAfterFirst == 1 && n+errs == 0 {
			cancel()
		}
		if r.Err != nil {
			errs++
			continue
		}
		if n > 0 {
			vAssert("records-in-global-key-order", last < r.Key)
		}
		last = r.Key
		n++
	}
	if cancelAfterFirst == 1 {
		want := 3 * ns
		if single == 1 {
			want = 3
		}
		vAssert("a-scan-that-ends-without-an-error-is-complete", errs > 0 || n == want)
		cancel()
		vReach("end")
		return
	}
	cancel()
	if mode == 0 {
		want := 3 * ns
		if single == 1 {
			want = 3
		}
		vAssert("every-record-exactly-once", n == want && errs == 0)
	} else {
		vAssert("the-failure-is-reported", errs >= 1)
	}
	vReach("end")
}
