package oxia

import (
	"context"
	"io"

	"google.golang.org/grpc"

	"github.com/oxia-db/oxia/proto"
)

// ---- model of the per-shard sequence-update service, faithful to leaderController.GetSequenceUpdates +
// publicRpcServer.GetSequenceUpdates: the request names a SHARD; the stream first delivers that shard's current
// highest key of the prefix (an empty string when the shard has none) and then every newer key — a slow reader
// may skip intermediate keys but always gets the latest.
type zzSeqServer struct {
	highest map[int64]string // per shard: highest generated key of the prefix
	streams []*zzSeqStream
	reqs    []*proto.GetSequenceUpdatesRequest
	want    int64 // the shard that owns the subscriber's partition key
	connected chan struct{}
}

type zzSeqStream struct {
	grpc.ClientStream
	ctx    context.Context
	srv    *zzSeqServer
	shard  int64
	sent   string
	first  bool
	broken chan struct{}
	wake   chan struct{}
}

func (s *zzSeqStream) Recv() (*proto.GetSequenceUpdatesResponse, error) {
	for {
		h := s.srv.highest[s.shard]
		if s.first || h != s.sent {
			s.first = false
			s.sent = h
			return &proto.GetSequenceUpdatesResponse{HighestSequenceKey: h}, nil
		}
		select {
		case <-s.wake:
		case <-s.broken:
			return nil, io.ErrUnexpectedEOF
		case <-s.ctx.Done():
			return nil, s.ctx.Err()
		}
	}
}

func (srv *zzSeqServer) generate(shard int64, key string) {
	srv.highest[shard] = key
	for _, s := range srv.streams {
		if s.shard == shard {
			select {
			case s.wake <- struct{}{}:
			default:
			}
		}
	}
}

type zzSeqClient struct {
	proto.OxiaClientClient
	srv *zzSeqServer
}

func (c *zzSeqClient) GetSequenceUpdates(ctx context.Context, in *proto.GetSequenceUpdatesRequest, _ ...grpc.CallOption) (proto.OxiaClient_GetSequenceUpdatesClient, error) {
	c.srv.reqs = append(c.srv.reqs, in)
	// the oracle lives here: a request is checked the moment the real client emits it
	vAssert("subscription-addressed-to-the-partition-key's-shard", in.Shard == c.srv.want && in.Key == "a")
	st := &zzSeqStream{ctx: ctx, srv: c.srv, shard: in.Shard, first: true, broken: make(chan struct{}), wake: make(chan struct{}, 1)}
	c.srv.streams = append(c.srv.streams, st)
	c.srv.connected <- struct{}{}
	return st, nil
}

type zzSeqPool struct {
	zzNotifPool
	c *zzSeqClient
}

func (p zzSeqPool) GetClientRpc(string) (proto.OxiaClientClient, error) { return p.c, nil }

// ZZClientSeqUpdates (C16 "a subscriber always eventually observes the latest generated key", C18 "client and
// server agree on the shard"): the REAL client subscription (newSequenceUpdates / getSequenceUpdatesWithRetries /
// getSequenceUpdates) over a two-shard model: the partition key lives on shard `own` (0 or 1); keys of the same
// prefix also exist on the OTHER shard (another partition). `pre` keys are generated before the subscription,
// the stream breaks (brk = 1) after the first delivery, one more key is generated while the client is
// disconnected and one after it has reconnected. The subscription must be addressed to the partition key's shard
// — every time it (re)connects — and the application must end up seeing the latest key of ITS partition,
// never a key of the other shard, never an empty key, never an older key after a newer one; the channel is closed when the
// context ends.
func ZZClientSeqUpdates(own, pre, brk int) {
	srv := &zzSeqServer{highest: map[int64]string{}, want: int64(own), connected: make(chan struct{}, 4)}
	other := int64(1 - own)
	mine := []string{"a-1", "a-2", "a-3", "a-4"}
	srv.generate(other, "a-9") // another partition's sequence under the same prefix, on the other shard
	n := 0
	for i := 0; i < pre; i++ {
		srv.generate(int64(own), mine[n])
		n++
	}
	sm := &zzRouteSM{}
	pk := "0" // zzRouteShard: a first byte with the low bit set -> shard 1
	if own == 1 {
		pk = "1"
	}
	ctx, cancel := context.WithCancel(context.Background())
	ch := newSequenceUpdates(ctx, "a", pk, zzSeqPool{c: &zzSeqClient{srv: srv}}, sm)
	var got []string
	if pre > 0 {
		got = append(got, <-ch)
	}
	<-srv.connected
	if brk == 1 {
		close(srv.streams[0].broken)
	}
	srv.generate(int64(own), mine[n])
	n++
	got = append(got, <-ch)
	for got[len(got)-1] != mine[n-1] {
		got = append(got, <-ch)
	}
	srv.generate(int64(own), mine[n])
	n++
	for got[len(got)-1] != mine[n-1] {
		got = append(got, <-ch)
	}
	vAssert("reconnected-after-the-break", len(srv.reqs) == 1+brk)
	vAssert("shard-looked-up-by-partition-key", len(sm.asked) >= 1 && sm.asked[0] == pk)
	last := ""
	for _, k := range got {
		vAssert("never-an-empty-or-foreign-key", k != "" && k != "a-9")
		vAssert("keys-never-go-backwards", k >= last) // a reconnect may deliver the current key again
		last = k
	}
	vAssert("latest-key-observed", last == mine[n-1])
	cancel()
	for range ch {
	}
	vReach("end")
}
