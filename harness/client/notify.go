package oxia

import (
	"context"
	"errors"
	"io"
	"time"

	"google.golang.org/grpc"
	"google.golang.org/grpc/health/grpc_health_v1"

	"github.com/oxia-db/oxia/proto"
)

// ---- model of the shard leader's notification service, faithful to leaderController.GetNotifications: a
// request without a start offset is positioned on the current commit offset (first, empty "dummy" batch);
// with a start offset it resumes right after it.
type zzNotifServer struct {
	log     []string // log[i] = key written by the committed request at offset i
	streams []*zzNotifStream
	reqs    []*proto.NotificationsRequest
}

type zzNotifStream struct {
	grpc.ClientStream
	ctx    context.Context
	srv    *zzNotifServer
	next   int64 // next offset to deliver
	dummy  *proto.NotificationBatch
	broken chan struct{}
	wake   chan struct{}
}

func (s *zzNotifStream) Recv() (*proto.NotificationBatch, error) {
	if s.dummy != nil {
		d := s.dummy
		s.dummy = nil
		return d, nil
	}
	for {
		if s.next < int64(len(s.srv.log)) {
			o := s.next
			s.next++
			v := int64(100 + o)
			return &proto.NotificationBatch{Shard: 0, Offset: o, Timestamp: 1, Notifications: map[string]*proto.Notification{
				s.srv.log[o]: {Type: proto.NotificationType_KEY_CREATED, VersionId: &v}}}, nil
		}
		select {
		case <-s.wake:
		case <-s.broken:
			return nil, io.ErrUnexpectedEOF
		case <-s.ctx.Done():
			return nil, s.ctx.Err()
		}
	}
}

func (srv *zzNotifServer) commit(key string) {
	srv.log = append(srv.log, key)
	for _, s := range srv.streams {
		select {
		case s.wake <- struct{}{}:
		default:
		}
	}
}

type zzNotifClient struct {
	proto.OxiaClientClient
	srv *zzNotifServer
}

func (c *zzNotifClient) GetNotifications(ctx context.Context, in *proto.NotificationsRequest, _ ...grpc.CallOption) (proto.OxiaClient_GetNotificationsClient, error) {
	c.srv.reqs = append(c.srv.reqs, in)
	st := &zzNotifStream{ctx: ctx, srv: c.srv, broken: make(chan struct{}), wake: make(chan struct{}, 1)}
	if in.StartOffsetExclusive != nil {
		st.next = *in.StartOffsetExclusive + 1
	} else {
		commit := int64(len(c.srv.log)) - 1
		st.dummy = &proto.NotificationBatch{Shard: 0, Offset: commit}
		st.next = commit + 1
	}
	c.srv.streams = append(c.srv.streams, st)
	return st, nil
}

type zzNotifPool struct{ c *zzNotifClient }

func (p zzNotifPool) Close() error                                      { return nil }
func (p zzNotifPool) GetClientRpc(string) (proto.OxiaClientClient, error) { return p.c, nil }
func (p zzNotifPool) GetHealthRpc(string) (grpc_health_v1.HealthClient, io.Closer, error) {
	return nil, nil, errors.New("zz")
}
func (p zzNotifPool) GetCoordinationRpc(string) (proto.OxiaCoordinationClient, error) {
	return nil, errors.New("zz")
}
func (p zzNotifPool) GetReplicationRpc(string) (proto.OxiaLogReplicationClient, error) {
	return nil, errors.New("zz")
}
func (p zzNotifPool) Clear(string) {}

// ZZClientNotify (C17, client side): the real client notification manager (newNotifications, the per-shard
// getNotificationsWithRetries loop with its resume offset, multiplexing) against a model of the leader's
// notification service. `pre` writes are committed before the client subscribes; it then sees `seen`
// notifications; its stream breaks; `during` writes are committed while it is disconnected; it reconnects
// (backoff) and one more write follows. The application must receive exactly the writes committed after it
// subscribed — none lost in the disconnection window, none twice — in order.
func ZZClientNotify(pre, seen, during int) {
	srv := &zzNotifServer{}
	keys := []string{"k0", "k1", "k2", "k3", "k4", "k5", "k6", "k7"}
	n := 0
	for i := 0; i < pre; i++ {
		srv.commit(keys[n])
		n++
	}
	sm := &zzSM{ids: []int64{0}}
	ctx, cancel := context.WithCancel(context.Background())
	nm, err := newNotifications(ctx, clientOptions{requestTimeout: 30 * time.Second}, zzNotifPool{&zzNotifClient{srv: srv}}, sm)
	vAssert("subscribed", err == nil)
	if err != nil {
		return
	}
	first := n
	var got []string
	for i := 0; i < seen; i++ {
		srv.commit(keys[n])
		n++
		got = append(got, (<-nm.Ch()).Key)
	}
	// the connection drops
	close(srv.streams[0].broken)
	for i := 0; i < during; i++ {
		srv.commit(keys[n])
		n++
	}
	for len(got) < seen+during {
		got = append(got, (<-nm.Ch()).Key)
	}
	srv.commit(keys[n])
	n++
	got = append(got, (<-nm.Ch()).Key)
	vAssert("reconnected-once", len(srv.reqs) == 2)
	for i, k := range got {
		vAssert("every-write-committed-after-subscribing-is-notified-once-in-order", k == keys[first+i])
	}
	cancel()
	vReach("end")
}
