package oxia

import (
	"context"
	"errors"
	"io"
	"time"

	"google.golang.org/grpc"
	"google.golang.org/grpc/health/grpc_health_v1"

	"github.com/oxia-db/oxia/proto"
)

// ---- model of the shard leader's notification service, faithful to leaderController.GetNotifications: a
// request without a start offset is positioned on the current commit offset (first, empty "dummy" batch);
// with a start offset it resumes right after it.
type zzNotifServer struct {
	log     []string // log[i] = key written by the committed request at offset i
	streams []*zzNotifStream
	reqs    []*proto.NotificationsRequest
	startAt []int64 // per request: start_offset_exclusive AT THE TIME of the request (-99: unset); the client passes a pointer to a field it keeps updating
}

type zzNotifStream struct {
	grpc.ClientStream
	ctx    context.Context
	srv    *zzNotifServer
	next   int64 // next offset to deliver
	dummy  *proto.NotificationBatch
	broken chan struct{}
	wake   chan struct{}
}

func (s *zzNotifStream) Recv() (*proto.NotificationBatch, error) {
	if s.dummy != nil {
		d := s.dummy
		s.dummy = nil
		return d, nil
	}
	for {
		if s.next < int64(len(s.srv.log)) {
			o := s.next
			s.next++
			v := int64(100 + o)
			return &proto.NotificationBatch{Shard: 0, Offset: o, Timestamp: 1, Notifications: map[string]*proto.Notification{
				s.srv.log[o]: {Type: proto.NotificationType_KEY_CREATED, VersionId: &v}}}, nil
		}
		select {
		case <-s.wake:
		case <-s.broken:
			return nil, io.ErrUnexpectedEOF
		case <-s.ctx.Done():
			return nil, s.ctx.Err()
		}
	}
}

func (srv *zzNotifServer) commit(key string) {
	srv.log = append(srv.log, key)
	for _, s := range srv.streams {
		select {
		case s.wake <- struct{}{}:
		default:
		}
	}
}

type zzNotifClient struct {
	proto.OxiaClientClient
	srv  *zzNotifServer
	dead bool
}

func (c *zzNotifClient) GetNotifications(ctx context.Context, in *proto.NotificationsRequest, _ ...grpc.CallOption) (proto.OxiaClient_GetNotificationsClient, error) {
	if c.dead {
		return nil, io.ErrClosedPipe // this node is gone (or no longer leads the shard)
	}
	c.srv.reqs = append(c.srv.reqs, in)
	if in.StartOffsetExclusive != nil {
		c.srv.startAt = append(c.srv.startAt, *in.StartOffsetExclusive)
	} else {
		c.srv.startAt = append(c.srv.startAt, -99)
	}
	st := &zzNotifStream{ctx: ctx, srv: c.srv, broken: make(chan struct{}), wake: make(chan struct{}, 1)}
	if in.StartOffsetExclusive != nil {
		st.next = *in.StartOffsetExclusive + 1
	} else {
		commit := int64(len(c.srv.log)) - 1
		st.dummy = &proto.NotificationBatch{Shard: 0, Offset: commit}
		st.next = commit + 1
	}
	c.srv.streams = append(c.srv.streams, st)
	return st, nil
}

type zzNotifPool struct{ c *zzNotifClient }

func (p zzNotifPool) Close() error                                      { return nil }
func (p zzNotifPool) GetClientRpc(string) (proto.OxiaClientClient, error) { return p.c, nil }
func (p zzNotifPool) GetHealthRpc(string) (grpc_health_v1.HealthClient, io.Closer, error) {
	return nil, nil, errors.New("zz")
}
func (p zzNotifPool) GetCoordinationRpc(string) (proto.OxiaCoordinationClient, error) {
	return nil, errors.New("zz")
}
func (p zzNotifPool) GetReplicationRpc(string) (proto.OxiaLogReplicationClient, error) {
	return nil, errors.New("zz")
}
func (p zzNotifPool) Clear(string) {}

// ZZClientNotify (C17, client side): the real client notification manager (newNotifications, the per-shard
// getNotificationsWithRetries loop with its resume offset, multiplexing) against a model of the leader's
// notification service. `pre` writes are committed before the client subscribes; it then sees `seen`
// notifications; its stream breaks; `during` writes are committed while it is disconnected; it reconnects
// (backoff) and one more write follows. The application must receive exactly the writes committed after it
// subscribed — none lost in the disconnection window, none twice — in order.
func ZZClientNotify(pre, seen, during int) {
	srv := &zzNotifServer{}
	keys := []string{"k0", "k1", "k2", "k3", "k4", "k5", "k6", "k7"}
	n := 0
	for i := 0; i < pre; i++ {
		srv.commit(keys[n])
		n++
	}
	sm := &zzSM{ids: []int64{0}}
	ctx, cancel := context.WithCancel(context.Background())
	nm, err := newNotifications(ctx, clientOptions{requestTimeout: 30 * time.Second}, zzNotifPool{&zzNotifClient{srv: srv}}, sm)
	vAssert("subscribed", err == nil)
	if err != nil {
		return
	}
	first := n
	var got []string
	for i := 0; i < seen; i++ {
		srv.commit(keys[n])
		n++
		got = append(got, (<-nm.Ch()).Key)
	}
	// the connection drops
	close(srv.streams[0].broken)
	for i := 0; i < during; i++ {
		srv.commit(keys[n])
		n++
	}
	for len(got) < seen+during {
		got = append(got, (<-nm.Ch()).Key)
	}
	srv.commit(keys[n])
	n++
	got = append(got, (<-nm.Ch()).Key)
	vAssert("reconnected-once", len(srv.reqs) == 2)
	for i, k := range got {
		vAssert("every-write-committed-after-subscribing-is-notified-once-in-order", k == keys[first+i])
	}
	cancel()
	vReach("end")
}

type zzSM2 struct{ leaders map[int64]string }

func (zzSM2) Close() error              { return nil }
func (zzSM2) Get(string) int64          { return 0 }
func (zzSM2) GetAll() []int64           { return []int64{0, 1} }
func (m zzSM2) Leader(s int64) string { return m.leaders[s] }

type zzNotifPool2 struct {
	zzNotifPool
	c map[string]*zzNotifClient
}

func (p zzNotifPool2) GetClientRpc(t string) (proto.OxiaClientClient, error) { return p.c[t], nil }

// ZZClientNotify2 (C17, client side, two shards): the real notification manager over two shard leaders. Each shard
// has its own log (keys a0.. on shard 0, b0.. on shard 1). Both shards get `seen` writes that the application
// receives; then shard `brk`'s stream breaks (move = 1: because its leader moved to another node), both shards get a
// write while it is disconnected, it reconnects — to the CURRENT leader —, and
// both get one more. Per shard the application receives exactly that shard's writes after subscription, in that
// shard's order, none lost or doubled; the broken shard resumes right after what it had delivered; the healthy
// shard is not disturbed (one request only); Close ends the channel.
func ZZClientNotify2(seen, brk, move int) {
	srvs := []*zzNotifServer{{}, {}}
	names := [][]string{{"a0", "a1", "a2", "a3"}, {"b0", "b1", "b2", "b3"}}
	ctx, cancel := context.WithCancel(context.Background())
	pool := zzNotifPool2{c: map[string]*zzNotifClient{"l0": {srv: srvs[0]}, "l1": {srv: srvs[1]}}}
	sm := zzSM2{leaders: map[int64]string{0: "l0", 1: "l1"}}
	nm, err := newNotifications(ctx, clientOptions{requestTimeout: 30 * time.Second}, pool, sm)
	vAssert("subscribed", err == nil)
	if err != nil {
		return
	}
	n := []int{0, 0}
	var got [2][]string
	recv := func(k int) {
		for i := 0; i < k; i++ {
			nt := <-nm.Ch()
			if nt.Key[0] == 'a' {
				got[0] = append(got[0], nt.Key)
			} else {
				got[1] = append(got[1], nt.Key)
			}
		}
	}
	write := func(s int) {
		srvs[s].commit(names[s][n[s]])
		n[s]++
	}
	for i := 0; i < seen; i++ {
		write(0)
		write(1)
		recv(2)
	}
	if move == 1 {
		// the stream breaks because the shard's leader moved: the old node refuses from now on, the new leader
		// (same committed log) is what the shard manager names
		old := sm.leaders[int64(brk)]
		pool.c[old].dead = true
		pool.c["l9"] = &zzNotifClient{srv: srvs[brk]}
		sm.leaders[int64(brk)] = "l9"
	}
	close(srvs[brk].streams[0].broken)
	write(0)
	write(1)
	recv(2)
	write(0)
	write(1)
	recv(2)
	for s := 0; s < 2; s++ {
		vAssert("per-shard-count", len(got[s]) == n[s])
		for i, k := range got[s] {
			vAssert("per-shard-order-no-loss-no-duplicate", k == names[s][i])
		}
	}
	vAssert("broken-shard-reconnected-once", len(srvs[brk].reqs) == 2)
	vAssert("healthy-shard-undisturbed", len(srvs[1-brk].reqs) == 1)
	if len(srvs[brk].reqs) == 2 {
		r := srvs[brk].reqs[1]
		if seen > 0 {
			// (the old stream may still have delivered the write made right after the break)
			at := srvs[brk].startAt[1]
			vAssert("resumes-after-a-batch-it-has-delivered", at >= int64(seen-1) && at <= int64(seen))
		}
		vAssert("request-names-its-shard", r.Shard == int64(brk))
	}
	vAssert("first-requests-name-their-shards", srvs[0].reqs[0].Shard == 0 && srvs[1].reqs[0].Shard == 1)
	cancel()
	vAssert("close-ok", nm.Close() == nil)
	_, open := <-nm.Ch()
	vAssert("channel-closed-after-close", !open)
	vReach("end")
}
