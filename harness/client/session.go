package oxia

import (
	"context"

	"github.com/oxia-db/oxia/common/constant"
	"errors"
	"io"
	"time"

	"google.golang.org/grpc"
	"google.golang.org/grpc/codes"
	"google.golang.org/grpc/health/grpc_health_v1"
	"google.golang.org/grpc/status"

	"github.com/oxia-db/oxia/proto"
)

type zzSessServer struct {
	proto.OxiaClientClient
	name       string
	down       bool
	created    int
	heartbeats []int64
	closed     []int64
	beat       chan int64
	lost       map[int64]bool // sessions the server no longer knows (expired while the client was away, closed behind its back)
	lostSeen   chan int64
}

func (s *zzSessServer) CreateSession(context.Context, *proto.CreateSessionRequest, ...grpc.CallOption) (*proto.CreateSessionResponse, error) {
	if s.down {
		return nil, status.Error(codes.Unavailable, "zz: down")
	}
	s.created++
	return &proto.CreateSessionResponse{SessionId: int64(100*len(s.name) + s.created)}, nil
}
func (s *zzSessServer) KeepAlive(_ context.Context, hb *proto.SessionHeartbeat, _ ...grpc.CallOption) (*proto.KeepAliveResponse, error) {
	if s.down {
		return nil, status.Error(codes.Unavailable, "zz: down")
	}
	if s.lost[hb.SessionId] {
		select {
		case s.lostSeen <- hb.SessionId:
		default:
		}
		return nil, status.Error(constant.CodeSessionNotFound, "zz: session not found")
	}
	s.heartbeats = append(s.heartbeats, hb.SessionId)
	select {
	case s.beat <- hb.SessionId:
	default:
	}
	return &proto.KeepAliveResponse{}, nil
}
func (s *zzSessServer) CloseSession(_ context.Context, r *proto.CloseSessionRequest, _ ...grpc.CallOption) (*proto.CloseSessionResponse, error) {
	s.closed = append(s.closed, r.SessionId)
	return &proto.CloseSessionResponse{}, nil
}

type zzSessPool struct{ servers map[string]*zzSessServer }

func (p zzSessPool) Close() error { return nil }
func (p zzSessPool) GetClientRpc(t string) (proto.OxiaClientClient, error) {
	return p.servers[t], nil
}
func (p zzSessPool) GetHealthRpc(string) (grpc_health_v1.HealthClient, io.Closer, error) {
	return nil, nil, errors.New("zz")
}
func (p zzSessPool) GetCoordinationRpc(string) (proto.OxiaCoordinationClient, error) {
	return nil, errors.New("zz")
}
func (p zzSessPool) GetReplicationRpc(string) (proto.OxiaLogReplicationClient, error) {
	return nil, errors.New("zz")
}
func (p zzSessPool) Clear(string) {}

// zzTicks: in the symbolic run time.NewTicker is replaced by zzNewTicker, whose channel the harness feeds: a
// tick happens exactly when the harness says so (natively the real 2 s ticker runs).
var zzTicks chan time.Time

func zzNewTicker(time.Duration) *time.Ticker { return &time.Ticker{C: zzTicks} }
func zzTick() {
	if zzTicks != nil {
		zzTicks <- time.Time{}
	}
}
func zzUseModelTicker() bool      { return false } // replaced by zzUseModelTickerYes in the symbolic run
func zzUseModelTickerYes() bool   { return true }

type zzLeaderSM struct{ leader *string }

func (s zzLeaderSM) Close() error        { return nil }
func (s zzLeaderSM) Get(string) int64    { return 0 }
func (s zzLeaderSM) GetAll() []int64     { return []int64{0} }
func (s zzLeaderSM) Leader(int64) string { return *s.leader }

// ZZClientSession (C14, client side): the real client session manager (sessions.executeWithSessionId, the
// createSession / keepAlive goroutines with their retry loops) against model leaders. An ephemeral put gets a
// session created on leader "a"; the session is replicated state, so after a leader change (move = 1: "a"
// goes away, "b" leads) the SAME session lives on "b" and only stays alive there if the client's heartbeats
// follow the leader: once the client has seen a heartbeat fail, the next heartbeats go to the current leader.
// Later ephemeral puts keep using that session id; Close closes it on the current leader.
func ZZClientSession(move int) {
	zzTicks = nil
	if zzUseModelTicker() {
		zzTicks = make(chan time.Time)
	}
	a := &zzSessServer{name: "a", beat: make(chan int64, 8)}
	b := &zzSessServer{name: "bb", beat: make(chan int64, 8)}
	leader := "a"
	ctx, cancel := context.WithCancel(context.Background())
	ss := newSessions(ctx, zzLeaderSM{&leader}, zzSessPool{map[string]*zzSessServer{"a": a, "bb": b}},
		clientOptions{identity: "c", sessionTimeout: 20 * time.Second, requestTimeout: 10 * time.Second})
	ids := make(chan int64, 4)
	ss.executeWithSessionId(0, func(id int64, err error) {
		vAssert("session-created", err == nil)
		ids <- id
	})
	sid := <-ids
	vAssert("one-session-on-the-leader", a.created == 1 && b.created == 0)
	if move == 1 {
		zzTick()
		first := <-a.beat // the keep-alive loop is running against the first leader
		vAssert("heartbeat-carries-the-session-id", first == sid)
		a.down = true
		leader = "bb"
		zzTick() // this heartbeat fails: the old leader is gone
		zzTick() // the next one must reach the new leader
		got := <-b.beat // blocks until a heartbeat reaches the new leader
		vAssert("heartbeats-follow-the-leader-with-the-same-session", got == sid)
	} else if move == 2 {
		// the server loses the session (it expired while the client was partitioned): the next heartbeat is answered
		// "session not found". The client must stop using the dead session: the next ephemeral put gets a NEW
		// session, which is the one kept alive and the one closed by Close.
		zzTick()
		vAssert("heartbeat-carries-the-session-id", <-a.beat == sid)
		a.lost = map[int64]bool{sid: true}
		a.lostSeen = make(chan int64, 1)
		zzTick()
		vAssert("the-dead-session's-heartbeat-was-refused", <-a.lostSeen == sid)
		vSettle(20) // natively: let the keep-alive goroutine finish handling the refusal
		ss.executeWithSessionId(0, func(id int64, err error) {
			vAssert("a-new-session-replaces-the-dead-one", err == nil && id != sid)
			ids <- id
		})
		sid2 := <-ids
		vAssert("second-session-created", a.created == 2)
		zzTick()
		vAssert("the-new-session-is-kept-alive", <-a.beat == sid2)
		vAssert("close-ok", ss.Close() == nil)
		closedNew := false
		for _, c := range a.closed {
			if c == sid2 {
				closedNew = true
			}
		}
		vAssert("the-live-session-is-closed-by-close", closedNew)
		cancel()
		vReach("end")
		return
	} else {
		zzTick()
		got := <-a.beat
		vAssert("heartbeat-carries-the-session-id", got == sid)
	}
	ss.executeWithSessionId(0, func(id int64, err error) {
		vAssert("later-ephemeral-puts-use-the-same-session", err == nil && id == sid)
		ids <- id
	})
	<-ids
	cur := a
	if move == 1 {
		cur = b
	}
	vAssert("close-ok", ss.Close() == nil)
	vAssert("session-closed-on-the-current-leader", len(cur.closed) == 1 && cur.closed[0] == sid)
	cancel()
	vReach("end")
}
