package oxia

import (
	"context"

	"github.com/oxia-db/oxia/oxia/internal/batch"
	"github.com/oxia-db/oxia/oxia/internal/model"
	obatch "github.com/oxia-db/oxia/oxia/batch"
	"github.com/oxia-db/oxia/proto"
)

// zzRouteSM records every string the client asks the shard manager to place and answers with the shard the
// two-shard model assigns to it (strings starting with a byte whose low bit is set -> shard 1, all the others,
// the empty string included -> shard 0).
type zzRouteSM struct{ asked []string }

func (s *zzRouteSM) Close() error { return nil }
func (s *zzRouteSM) Get(k string) int64 {
	s.asked = append(s.asked, k)
	return zzRouteShard(k)
}
func (s *zzRouteSM) GetAll() []int64     { return []int64{0, 1} }
func (s *zzRouteSM) Leader(int64) string { return "l" }

func zzRouteShard(k string) int64 {
	if len(k) > 0 && k[0]&1 == 1 {
		return 1
	}
	return 0
}

type zzRouteBatcher struct {
	shard int64
	log   *[]int64
}

func (b zzRouteBatcher) Close() error { return nil }
func (b zzRouteBatcher) Run()         {}
func (b zzRouteBatcher) Add(any)      { *b.log = append(*b.log, b.shard) }

// ZZClientRouting (C18): "every key (or partition key) maps to exactly one shard". The real client operations
// (Put, Delete, Get, DeleteRange, List, RangeScan) with an ARBITRARY record key and an arbitrary partition key
// of 0 or 1 byte (hasPk=1) or none (hasPk=0), over a two-shard model shard manager that records what it is
// asked. With a partition key every operation must be placed by the partition key — the same single shard for
// all of them — and never by the record key; without one, key-addressed operations are placed by the key.
func ZZClientRouting(hasPk, pkLen int) {
	sm := &zzRouteSM{}
	var wlog, rlog []int64
	ctx, cancel := context.WithCancel(context.Background())
	ex := &zzScanExecutor{zzListExecutor: zzListExecutor{ctx: ctx, fail: -1}}
	c := &clientImpl{shardManager: sm, executor: ex, ctx: context.Background()}
	c.writeBatchManager = batch.NewManager(context.Background(), func(_ context.Context, s *int64) obatch.Batcher { return zzRouteBatcher{*s, &wlog} })
	c.readBatchManager = batch.NewManager(context.Background(), func(_ context.Context, s *int64) obatch.Batcher { return zzRouteBatcher{*s, &rlog} })
	key := string(vBytes("key", 1))
	pk := string(vBytes("pk", pkLen))
	var po []PutOption
	var do []DeleteOption
	var gopt []GetOption
	var dro []DeleteRangeOption
	var lo []ListOption
	var ro []RangeScanOption
	want := zzRouteShard(key)
	placedBy := key
	if hasPk == 1 {
		o := PartitionKey(pk)
		po, do, gopt, dro, lo, ro = []PutOption{o}, []DeleteOption{o}, []GetOption{o}, []DeleteRangeOption{o}, []ListOption{o}, []RangeScanOption{o}
		want = zzRouteShard(pk)
		placedBy = pk
	}
	c.Put(key, []byte{1}, po...)
	vAssert("put-placed-by-partition-key-else-key", len(sm.asked) == 1 && sm.asked[0] == placedBy && len(wlog) == 1 && wlog[0] == want)
	c.Delete(key, do...)
	vAssert("delete-placed-like-put", len(sm.asked) == 2 && sm.asked[1] == placedBy && len(wlog) == 2 && wlog[1] == want)
	c.Get(key, gopt...)
	vAssert("get-placed-like-put", len(sm.asked) == 3 && sm.asked[2] == placedBy && len(rlog) == 1 && rlog[0] == want)
	if hasPk == 1 {
		c.DeleteRange("a", "z", dro...)
		vAssert("delete-range-goes-to-the-partition's-shard", len(sm.asked) == 4 && sm.asked[3] == pk && len(wlog) == 3 && wlog[2] == want)
		n := 0
		for r := range c.List(ctx, "a", "z", lo...) {
			for _, k := range r.Keys {
				vAssert("list-served-by-the-partition's-shard", len(k) == 2 && int64(k[0]-'b') == want)
				n++
			}
		}
		vAssert("list-asked-one-shard", n == 3 && len(sm.asked) == 5 && sm.asked[4] == pk)
		n = 0
		for r := range c.RangeScan(ctx, "a", "z", ro...) {
			vAssert("scan-served-by-the-partition's-shard", r.Err == nil && len(r.Key) == 2 && int64(r.Key[0]-'b') == want)
			n++
		}
		vAssert("scan-asked-one-shard", n == 3 && len(sm.asked) == 6 && sm.asked[5] == pk)
	}
	cancel()
	vReach("end")
}

var _ = model.PutCall{}
var _ = proto.Status_OK
