package main

import (
	"os"
	"bufio"
	"fmt"
	"io"
	"os/exec"
	"strings"
	"time"
)

// Term is a hash-consed SMT term. Width 0 = Bool.
type Term struct {
	id    int
	w     int // bit width, 0 = Bool
	konst bool
	cv    uint64 // constant value (masked to w) or 0/1 for Bool
	name  string // SMT name or literal
}

type Ctx struct {
	terms   map[string]*Term
	n       int
	pending strings.Builder
	vars    []*Term
	solver  *Solver
	extracts map[*Term]extractInfo
	concats  map[*Term][2]*Term
	allDefs  strings.Builder // every declaration/definition sent so far (for cross-checking a query on other solvers)
	xcheck   struct{ sampled, agreed, disagreed, inconclusive int }
}

func NewCtx() *Ctx { return &Ctx{terms: map[string]*Term{}} }

func mask(w int) uint64 {
	if w >= 64 {
		return ^uint64(0)
	}
	return (uint64(1) << uint(w)) - 1
}

func sortStr(w int) string {
	if w == 0 {
		return "Bool"
	}
	return fmt.Sprintf("(_ BitVec %d)", w)
}

func (c *Ctx) BV(v uint64, w int) *Term {
	v &= mask(w)
	key := fmt.Sprintf("c%d:%d", w, v)
	if t, ok := c.terms[key]; ok {
		return t
	}
	c.n++
	t := &Term{id: c.n, w: w, konst: true, cv: v, name: fmt.Sprintf("(_ bv%d %d)", v, w)}
	c.terms[key] = t
	return t
}

func (c *Ctx) Bool(b bool) *Term {
	key := fmt.Sprintf("b:%v", b)
	if t, ok := c.terms[key]; ok {
		return t
	}
	c.n++
	t := &Term{id: c.n, w: 0, konst: true, name: fmt.Sprint(b)}
	if b {
		t.cv = 1
	}
	c.terms[key] = t
	return t
}

func (c *Ctx) Var(name string, w int) *Term {
	c.n++
	t := &Term{id: c.n, w: w, name: fmt.Sprintf("v%d_%s", c.n, sanitize(name))}
	fmt.Fprintf(&c.pending, "(declare-const %s %s)\n", t.name, sortStr(w))
	c.vars = append(c.vars, t)
	return t
}

func sanitize(s string) string {
	var b strings.Builder
	for _, r := range s {
		if r >= 'a' && r <= 'z' || r >= 'A' && r <= 'Z' || r >= '0' && r <= '9' || r == '_' {
			b.WriteRune(r)
		} else {
			b.WriteByte('_')
		}
	}
	return b.String()
}

// mk creates (or finds) a defined term.
func (c *Ctx) mk(w int, op string, args ...*Term) *Term {
	var kb strings.Builder
	kb.WriteString(op)
	for _, a := range args {
		fmt.Fprintf(&kb, " %d", a.id)
	}
	key := kb.String()
	if t, ok := c.terms[key]; ok {
		return t
	}
	c.n++
	t := &Term{id: c.n, w: w, name: fmt.Sprintf("t%d", c.n)}
	var eb strings.Builder
	eb.WriteString("(" + op)
	for _, a := range args {
		eb.WriteString(" " + a.name)
	}
	eb.WriteString(")")
	fmt.Fprintf(&c.pending, "(define-fun %s () %s %s)\n", t.name, sortStr(w), eb.String())
	c.terms[key] = t
	return t
}

// UF applies an uninterpreted function (declared on first use for this arity/width signature).
func (c *Ctx) UF(name string, w int, args ...*Term) *Term {
	sig := name
	for _, a := range args {
		sig += fmt.Sprintf("_%d", a.w)
	}
	if _, ok := c.terms["decl:"+sig]; !ok {
		var sb strings.Builder
		for _, a := range args {
			sb.WriteString(sortStr(a.w) + " ")
		}
		fmt.Fprintf(&c.pending, "(declare-fun %s (%s) %s)\n", sig, sb.String(), sortStr(w))
		c.terms["decl:"+sig] = &Term{}
	}
	return c.mk(w, sig, args...)
}

func sext(v uint64, w int) int64 {
	if w >= 64 {
		return int64(v)
	}
	if v&(1<<uint(w-1)) != 0 {
		return int64(v | ^mask(w))
	}
	return int64(v)
}

// BinOp on bit-vectors with constant folding. op is an SMT op name.
func (c *Ctx) BvBin(op string, a, b *Term) *Term {
	w := a.w
	if a.konst && b.konst {
		x, y := a.cv, b.cv
		switch op {
		case "bvadd":
			return c.BV(x+y, w)
		case "bvsub":
			return c.BV(x-y, w)
		case "bvmul":
			return c.BV(x*y, w)
		case "bvand":
			return c.BV(x&y, w)
		case "bvor":
			return c.BV(x|y, w)
		case "bvxor":
			return c.BV(x^y, w)
		case "bvshl":
			if y >= uint64(w) {
				return c.BV(0, w)
			}
			return c.BV(x<<y, w)
		case "bvlshr":
			if y >= uint64(w) {
				return c.BV(0, w)
			}
			return c.BV(x>>y, w)
		case "bvudiv":
			if y != 0 {
				return c.BV(x/y, w)
			}
		case "bvurem":
			if y != 0 {
				return c.BV(x%y, w)
			}
		case "bvsdiv":
			if y != 0 {
				sx, sy := sext(x, w), sext(y, w)
				if !(sy == -1 && sx == -sx && sx != 0) {
					return c.BV(uint64(sx/sy), w)
				}
			}
		case "bvsrem":
			if y != 0 {
				sx, sy := sext(x, w), sext(y, w)
				if sy != -1 {
					return c.BV(uint64(sx%sy), w)
				}
				return c.BV(0, w)
			}
		case "bvashr":
			if y >= uint64(w) {
				y = uint64(w - 1)
			}
			return c.BV(uint64(sext(x, w)>>y), w)
		}
	}
	if op == "bvadd" || op == "bvor" || op == "bvxor" {
		if a.konst && a.cv == 0 {
			return b
		}
		if b.konst && b.cv == 0 {
			return a
		}
	}
	if op == "bvsub" && b.konst && b.cv == 0 {
		return a
	}
	return c.mk(w, op, a, b)
}

func (c *Ctx) Cmp(op string, a, b *Term) *Term {
	if a.konst && b.konst {
		x, y := a.cv, b.cv
		sx, sy := sext(x, a.w), sext(y, a.w)
		switch op {
		case "=":
			return c.Bool(x == y)
		case "bvult":
			return c.Bool(x < y)
		case "bvule":
			return c.Bool(x <= y)
		case "bvugt":
			return c.Bool(x > y)
		case "bvuge":
			return c.Bool(x >= y)
		case "bvslt":
			return c.Bool(sx < sy)
		case "bvsle":
			return c.Bool(sx <= sy)
		case "bvsgt":
			return c.Bool(sx > sy)
		case "bvsge":
			return c.Bool(sx >= sy)
		}
	}
	if op == "=" && a == b {
		return c.Bool(true)
	}
	return c.mk(0, op, a, b)
}

func (c *Ctx) Not(a *Term) *Term {
	if a.konst {
		return c.Bool(a.cv == 0)
	}
	return c.mk(0, "not", a)
}

func (c *Ctx) And(a, b *Term) *Term {
	if a.konst {
		if a.cv == 0 {
			return a
		}
		return b
	}
	if b.konst {
		if b.cv == 0 {
			return b
		}
		return a
	}
	if a == b {
		return a
	}
	return c.mk(0, "and", a, b)
}

func (c *Ctx) Or(a, b *Term) *Term {
	if a.konst {
		if a.cv == 1 {
			return a
		}
		return b
	}
	if b.konst {
		if b.cv == 1 {
			return b
		}
		return a
	}
	if a == b {
		return a
	}
	return c.mk(0, "or", a, b)
}

func (c *Ctx) Ite(g, a, b *Term) *Term {
	if g.konst {
		if g.cv == 1 {
			return a
		}
		return b
	}
	if a == b {
		return a
	}
	return c.mk(a.w, "ite", g, a, b)
}

type extractInfo struct {
	src    *Term
	hi, lo int
}

func (c *Ctx) Extract(hi, lo int, a *Term) *Term {
	if a.konst {
		return c.BV(a.cv>>uint(lo), hi-lo+1)
	}
	if lo == 0 && hi == a.w-1 {
		return a
	}
	if ei, ok := c.extracts[a]; ok { // extract of extract
		return c.Extract(ei.lo+hi, ei.lo+lo, ei.src)
	}
	if ci, ok := c.concats[a]; ok { // extract of concat: descend when it falls into one side
		if lo >= ci[1].w {
			return c.Extract(hi-ci[1].w, lo-ci[1].w, ci[0])
		}
		if hi < ci[1].w {
			return c.Extract(hi, lo, ci[1])
		}
	}
	t := c.mk(hi-lo+1, fmt.Sprintf("(_ extract %d %d)", hi, lo), a)
	if c.extracts == nil {
		c.extracts = map[*Term]extractInfo{}
	}
	c.extracts[t] = extractInfo{a, hi, lo}
	return t
}

func (c *Ctx) ZeroExt(a *Term, w int) *Term {
	if w == a.w {
		return a
	}
	if a.konst {
		return c.BV(a.cv, w)
	}
	return c.mk(w, fmt.Sprintf("(_ zero_extend %d)", w-a.w), a)
}

func (c *Ctx) SignExt(a *Term, w int) *Term {
	if w == a.w {
		return a
	}
	if a.konst {
		return c.BV(uint64(sext(a.cv, a.w)), w)
	}
	return c.mk(w, fmt.Sprintf("(_ sign_extend %d)", w-a.w), a)
}

func (c *Ctx) Concat(hi, lo *Term) *Term {
	if hi.konst && lo.konst && hi.w+lo.w <= 64 {
		return c.BV(hi.cv<<uint(lo.w)|lo.cv, hi.w+lo.w)
	}
	// concat(extract(h,m+1,x), extract(m,l,x)) = extract(h,l,x)
	if a, ok := c.extracts[hi]; ok {
		if b, ok := c.extracts[lo]; ok && a.src == b.src && a.lo == b.hi+1 {
			return c.Extract(a.hi, b.lo, a.src)
		}
	}
	t := c.mk(hi.w+lo.w, "concat", hi, lo)
	if c.concats == nil {
		c.concats = map[*Term][2]*Term{}
	}
	c.concats[t] = [2]*Term{hi, lo}
	return t
}

// ---------------------------------------------------------------- solver

type Solver struct {
	cmd     *exec.Cmd
	in      io.WriteCloser
	out     *bufio.Reader
	queries int
	sat     int
	unsat   int
	unknown int
	dur     time.Duration
	log     io.Writer
	bin     string
	args    []string
	restarts int
}

func NewSolver(bin string, args ...string) *Solver {
	cmd := exec.Command(bin, args...)
	in, _ := cmd.StdinPipe()
	outp, _ := cmd.StdoutPipe()
	cmd.Stderr = cmd.Stdout
	if err := cmd.Start(); err != nil {
		panic(err)
	}
	s := &Solver{cmd: cmd, in: in, out: bufio.NewReader(outp), bin: bin, args: args}
	io.WriteString(in, "(set-option :timeout 20000)\n")
	if p := os.Getenv("VERIF_SMTLOG"); p != "" {
		s.log, _ = os.Create(p)
	}
	return s
}

func (s *Solver) Close() {
	s.in.Close()
	s.cmd.Process.Kill()
	s.cmd.Wait()
}

func (s *Solver) send(str string) {
	if s.log != nil {
		io.WriteString(s.log, str)
	}
	io.WriteString(s.in, str)
}

func (s *Solver) readLine() string {
	l, err := s.out.ReadString('\n')
	if err != nil {
		panic("solver died: " + err.Error() + " " + l)
	}
	return strings.TrimSpace(l)
}

// readLineTimeout waits for one line of solver output; ok=false when the solver does not answer in time.
func (s *Solver) readLineTimeout(d time.Duration) (string, bool) {
	type res struct {
		l   string
		err error
	}
	ch := make(chan res, 1)
	go func() {
		l, err := s.out.ReadString('\n')
		ch <- res{l, err}
	}()
	select {
	case r := <-ch:
		if r.err != nil {
			panic("solver died: " + r.err.Error() + " " + r.l)
		}
		return strings.TrimSpace(r.l), true
	case <-time.After(d):
		return "", false
	}
}

// restart kills a stuck solver and starts a fresh one with every definition sent so far.
func (c *Ctx) restartSolver() {
	old := c.solver
	old.cmd.Process.Kill()
	old.cmd.Wait()
	ns := NewSolver(old.bin, old.args...)
	ns.queries, ns.sat, ns.unsat, ns.unknown, ns.dur, ns.log = old.queries, old.sat, old.unsat, old.unknown, old.dur, old.log
	ns.restarts = old.restarts + 1
	c.solver = ns
	ns.send(c.allDefs.String())
}

// Check asks whether the conjunction of conds is satisfiable. Returns "sat"/"unsat"/"unknown".
// If sat and want != nil, values of want are fetched.
func (c *Ctx) Check(conds []*Term, want []*Term) (string, map[*Term]uint64) {
	s := c.solver
	t0 := time.Now()
	if c.pending.Len() > 0 {
		c.allDefs.WriteString(c.pending.String())
		s.send(c.pending.String())
		c.pending.Reset()
	}
	var b strings.Builder
	b.WriteString("(push)\n")
	for _, t := range conds {
		if t.konst {
			if t.cv == 0 {
				b.WriteString("(assert false)\n")
			}
			continue
		}
		b.WriteString("(assert " + t.name + ")\n")
	}
	b.WriteString("(check-sat)\n")
	s.send(b.String())
	res, answered := s.readLineTimeout(40 * time.Second)
	if !answered {
		// z3's own soft timeout did not fire: treat as unknown and replace the solver process
		s.queries++
		s.unknown++
		s.dur += time.Since(t0)
		c.restartSolver()
		return "unknown", nil
	}
	for strings.HasPrefix(res, "(error") || res == "" {
		if strings.HasPrefix(res, "(error") {
			panic("solver error: " + res)
		}
		res = s.readLine()
	}
	s.queries++
	var model map[*Term]uint64
	switch res {
	case "sat":
		s.sat++
		if len(want) > 0 {
			model = map[*Term]uint64{}
			for _, w := range want {
				if w.konst {
					model[w] = w.cv
					continue
				}
				s.send("(get-value (" + w.name + "))\n")
				l := s.readLine()
				model[w] = parseValue(l)
			}
		}
	case "unsat":
		s.unsat++
	default:
		s.unknown++
	}
	s.send("(pop)\n")
	s.dur += time.Since(t0)
	return res, model
}

func parseValue(l string) uint64 {
	// ((name #x0a)) or ((name #b0101)) or ((name true))
	l = strings.TrimSpace(l)
	i := strings.LastIndex(l, " ")
	v := strings.TrimRight(l[i+1:], ")")
	var r uint64
	switch {
	case strings.HasPrefix(v, "#x"):
		fmt.Sscanf(v[2:], "%x", &r)
	case strings.HasPrefix(v, "#b"):
		for _, ch := range v[2:] {
			r = r<<1 | uint64(ch-'0')
		}
	case v == "true":
		r = 1
	case v == "false":
		r = 0
	default:
		// (_ bvN w)
		fmt.Sscanf(l[strings.Index(l, "(_ bv")+5:], "%d", &r)
	}
	return r
}

// CrossCheck re-decides a verdict query (conjunction of conds) on z3-new and cvc5 from a standalone
// SMT-LIB2 script and compares with the answer of the primary solver.
func (c *Ctx) CrossCheck(conds []*Term, primary string, dir string, tag string) {
	var b strings.Builder
	b.WriteString("(set-logic ALL)\n")
	b.WriteString(c.allDefs.String())
	b.WriteString(c.pending.String())
	for _, t := range conds {
		if t.konst {
			if t.cv == 0 {
				b.WriteString("(assert false)\n")
			}
			continue
		}
		b.WriteString("(assert " + t.name + ")\n")
	}
	b.WriteString("(check-sat)\n")
	os.MkdirAll(dir, 0o755)
	path := dir + "/" + tag + ".smt2"
	if err := os.WriteFile(path, []byte(b.String()), 0o644); err != nil {
		return
	}
	c.xcheck.sampled++
	ok := true
	concl := true
	for _, sv := range [][]string{{"z3-new", "-T:60", path}, {"cvc5", "--tlimit=60000", path}} {
		out, _ := exec.Command(sv[0], sv[1:]...).CombinedOutput()
		res := strings.TrimSpace(strings.Split(strings.TrimSpace(string(out)), "\n")[0])
		if strings.Contains(string(out), "(error") || (res != "sat" && res != "unsat") {
			concl = false
			continue
		}
		if res != primary {
			ok = false
		}
	}
	switch {
	case !ok:
		c.xcheck.disagreed++
	case !concl:
		c.xcheck.inconclusive++
	default:
		c.xcheck.agreed++
		os.Remove(path)
	}
}
