package main

import (
	"bytes"
	"context"
	"encoding/json"
	"fmt"
	"os"
	"os/exec"
	"path/filepath"
	"regexp"
	"sort"
	"strconv"
	"strings"
	"time"
)

// ---------------------------------------------------------------- native replay

const rtNative = `
import (
	"encoding/json"
	"fmt"
	"os"
	"runtime"
	"strings"
	"sync"
	"testing"
	"time"
)

type zzCase struct {
	Fn     string              ` + "`json:\"fn\"`" + `
	Args   []int               ` + "`json:\"args\"`" + `
	Nd     map[string][]uint64 ` + "`json:\"nd\"`" + `
	Yields []string            ` + "`json:\"yields\"`" + `
}

var zzC zzCase
var zzMu sync.Mutex
var zzCond = sync.NewCond(&zzMu)
var zzGated bool

func zzNext(n string) uint64 {
	zzMu.Lock()
	defer zzMu.Unlock()
	q := zzC.Nd[n]
	if len(q) == 0 {
		fmt.Println("VND-EXHAUSTED", n)
		return 0
	}
	zzC.Nd[n] = q[1:]
	return q[0]
}
func vByte(n string) byte     { return byte(zzNext(n)) }
func vUint16(n string) uint16 { return uint16(zzNext(n)) }
func vUint32(n string) uint32 { return uint32(zzNext(n)) }
func vUint64(n string) uint64 { return zzNext(n) }
func vInt32(n string) int32   { return int32(zzNext(n)) }
func vInt64(n string) int64   { return int64(zzNext(n)) }
func vInt(n string) int       { return int(zzNext(n)) }
func vBool(n string) bool     { return zzNext(n) != 0 }
func vBytes(n string, l int) []byte {
	b := make([]byte, l)
	for i := range b {
		b[i] = byte(zzNext(n))
	}
	return b
}
func vChoice(n string, k int) int { return int(zzNext(n)) }
func vAssume(c bool) {
	if !c {
		fmt.Println("VASSUME-FALSE")
		os.Exit(3)
	}
}
func vAssert(id string, c bool) {
	if !c {
		fmt.Println("VASSERT-FAIL", id)
		os.Exit(4)
	}
}
func vReach(id string)            { fmt.Println("VREACH", id) }
func vObserve(n string, v int64)  { fmt.Println("VOBS", n, v) }
func vObserveB(n string, b []byte) {
	parts := make([]string, len(b))
	for i, x := range b {
		parts[i] = fmt.Sprint(x)
	}
	fmt.Println("VOBS", n, strings.Join(parts, ","))
}
func vKnown(id string, c bool) bool { return c }
func vGo(name string, f func())     { go f() }
func vSleep(ms int) { time.Sleep(time.Duration(ms) * time.Millisecond) }
func vSettle(ms int) { time.Sleep(time.Duration(ms) * time.Millisecond) }
func vTempDir() string {
	d, err := os.MkdirTemp("", "zzverif")
	if err != nil {
		panic(err)
	}
	return d
}
func vSeqPart(key, prefix string, idx int) uint64 {
	parts := strings.Split(strings.TrimPrefix(key, prefix), "-")[1:]
	var n uint64
	if idx < len(parts) {
		fmt.Sscanf(parts[idx], "%d", &n)
	}
	return n
}

// vYield: when a schedule was recorded, block until this id is at the head of the sequence.
func vYield(id string) {
	if !zzGated {
		return
	}
	zzMu.Lock()
	defer zzMu.Unlock()
	for len(zzC.Yields) > 0 && zzC.Yields[0] != id {
		found := false
		for _, y := range zzC.Yields {
			if y == id {
				found = true
			}
		}
		if !found {
			return
		}
		zzCond.Wait()
	}
	if len(zzC.Yields) > 0 {
		zzC.Yields = zzC.Yields[1:]
	}
	zzCond.Broadcast()
}

func TestZZReplay(t *testing.T) {
	path := os.Getenv("VERIF_CASE")
	if path == "" {
		t.Skip("no VERIF_CASE")
	}
	b, err := os.ReadFile(path)
	if err != nil {
		t.Fatal(err)
	}
	if err := json.Unmarshal(b, &zzC); err != nil {
		t.Fatal(err)
	}
	zzGated = len(zzC.Yields) > 0
	defer func() {
		if r := recover(); r != nil {
			pcs := make([]uintptr, 64)
			n := runtime.Callers(2, pcs)
			frames := runtime.CallersFrames(pcs[:n])
			where := "?"
			for {
				fr, more := frames.Next()
				if !strings.HasPrefix(fr.Function, "runtime.") && !strings.Contains(fr.File, "zz_verif_rt") {
					f := fr.File
					if i := strings.LastIndex(f, "/"); i >= 0 {
						f = f[i+1:]
					}
					where = fmt.Sprintf("%s:%d", f, fr.Line)
					break
				}
				if !more {
					break
				}
			}
			fmt.Printf("VPANIC %s @ %v\n", where, r)
			os.Exit(5)
		}
	}()
	f, ok := zzRegistry[zzC.Fn]
	if !ok {
		t.Fatalf("unknown harness %s", zzC.Fn)
	}
	f(zzC.Args)
	fmt.Println("VDONE")
}
`

var fnRe = regexp.MustCompile(`(?m)^func (ZZ\w+)\(([^)]*)\)`)

type nativePkg struct {
	pat    string
	bin    string
	dir    string
	buildS float64
	err    string
}

// buildNative compiles the package's test binary with the harness, the native runtime and a registry.
func buildNative(ix *Index, pat string) *nativePkg {
	t0 := time.Now()
	np := &nativePkg{pat: pat}
	tag := strings.NewReplacer("/", "_", ".", "").Replace(pat)
	np.dir = filepath.Join(verifDir, "out", "native", tag)
	os.RemoveAll(np.dir)
	os.MkdirAll(np.dir, 0o755)
	hf := harnessFiles(ix, pat)
	replace := map[string]string{}
	var clause string
	var reg strings.Builder
	for name, src := range hf {
		clause = packageClause(src)
		real := filepath.Join(np.dir, name)
		os.WriteFile(real, src, 0o644)
		replace[filepath.Join(pkgDir(pat), "zz_verif_"+strings.TrimSuffix(name, ".go")+"_test.go")] = real
		for _, mm := range fnRe.FindAllStringSubmatch(string(src), -1) {
			nargs := 0
			if strings.TrimSpace(mm[2]) != "" {
				// "a, b int" or "a int, b int"
				nargs = len(strings.Split(mm[2], ","))
			}
			var as []string
			for i := 0; i < nargs; i++ {
				as = append(as, fmt.Sprintf("a[%d]", i))
			}
			fmt.Fprintf(&reg, "\t%q: func(a []int) { %s(%s) },\n", mm[1], mm[1], strings.Join(as, ", "))
		}
	}
	rt := clause + "\n" + rtNative + "\nvar zzRegistry = map[string]func(a []int){\n" + reg.String() + "}\n"
	rtPath := filepath.Join(np.dir, "rt_native.go")
	os.WriteFile(rtPath, []byte(rt), 0o644)
	replace[filepath.Join(pkgDir(pat), "zz_verif_rt_test.go")] = rtPath
	ov, _ := json.Marshal(map[string]any{"Replace": replace})
	ovPath := filepath.Join(np.dir, "overlay.json")
	os.WriteFile(ovPath, ov, 0o644)
	np.bin = filepath.Join(np.dir, "pkg.test")
	cmd := exec.Command("go", "test", "-c", "-vet=off", "-overlay", ovPath, "-o", np.bin, pat)
	cmd.Dir = repoDir
	cmd.Env = append(os.Environ(), "GOFLAGS=-mod=mod", "GOPROXY=off")
	out, err := cmd.CombinedOutput()
	if err != nil {
		np.err = fmt.Sprintf("native build failed: %v\n%s", err, out)
	}
	np.buildS = time.Since(t0).Seconds()
	return np
}

type nativeOut struct {
	Done     bool
	Assert   string
	Panic    string
	Assume   bool
	Hang     bool
	Exhaust  []string
	Obs      []ObsVal
	Reached  []string
	Raw      string
	ExitCode int
}

type caseFile struct {
	Property string              `json:"property,omitempty"`
	Pkg      string              `json:"pkg"`
	Fn       string              `json:"fn"`
	Args     []int               `json:"args"`
	Nd       map[string][]uint64 `json:"nd"`
	Yields   []string            `json:"yields,omitempty"`
	Finding  *Finding            `json:"finding,omitempty"`
}

func mkCase(prop, pkg, fn string, args []int, model []NdVal, yields []string) *caseFile {
	c := &caseFile{Property: prop, Pkg: pkg, Fn: fn, Args: args, Nd: map[string][]uint64{}, Yields: yields}
	if c.Args == nil {
		c.Args = []int{}
	}
	for _, v := range model {
		c.Nd[v.Name] = append(c.Nd[v.Name], v.Val)
	}
	return c
}

func runNative(np *nativePkg, casePath string, timeout time.Duration) *nativeOut {
	ctx, cancel := context.WithTimeout(context.Background(), timeout)
	defer cancel()
	cmd := exec.CommandContext(ctx, np.bin, "-test.run", "^TestZZReplay$", "-test.count=1", "-test.timeout", (timeout + 5*time.Second).String())
	cmd.Dir = pkgDir(np.pat)
	cmd.Env = append(os.Environ(), "VERIF_CASE="+casePath)
	var buf bytes.Buffer
	cmd.Stdout = &buf
	cmd.Stderr = &buf
	err := cmd.Run()
	o := &nativeOut{Raw: buf.String()}
	if ctx.Err() != nil {
		o.Hang = true
	}
	if ee, ok := err.(*exec.ExitError); ok {
		o.ExitCode = ee.ExitCode()
	}
	for _, l := range strings.Split(o.Raw, "\n") {
		fs := strings.Fields(l)
		if len(fs) == 0 {
			continue
		}
		switch fs[0] {
		case "VDONE":
			o.Done = true
		case "VASSERT-FAIL":
			o.Assert = strings.TrimSpace(strings.TrimPrefix(l, "VASSERT-FAIL"))
		case "VPANIC":
			o.Panic = strings.TrimSpace(strings.TrimPrefix(l, "VPANIC"))
		case "VASSUME-FALSE":
			o.Assume = true
		case "VND-EXHAUSTED":
			o.Exhaust = append(o.Exhaust, fs[1])
		case "VREACH":
			o.Reached = append(o.Reached, fs[1])
		case "VOBS":
			ov := ObsVal{Name: fs[1]}
			if len(fs) > 2 {
				for _, x := range strings.Split(fs[2], ",") {
					n, _ := strconv.ParseInt(x, 10, 64)
					ov.Vals = append(ov.Vals, uint64(n))
				}
			}
			o.Obs = append(o.Obs, ov)
		}
		if strings.HasPrefix(l, "panic:") || strings.HasPrefix(l, "fatal error:") {
			if o.Panic == "" {
				o.Panic = l
			}
		}
	}
	return o
}

// ---------------------------------------------------------------- check

type Evidence struct {
	PropertyID  string         `json:"property_id"`
	Tier        string         `json:"tier"`
	Seed        int            `json:"seed"`
	Level       string         `json:"level"`
	Coverage    map[string]any `json:"coverage"`
	Assumptions []string       `json:"assumptions"`
	WallS       float64        `json:"wall_s"`
	Violations  int            `json:"violations"`
	Result      string         `json:"result"`
}

func cmdCheck(prop, tier string) int {
	t0 := time.Now()
	ix := loadIndex()
	ps, ok := ix.Properties[prop]
	if !ok {
		fatal(2, "no such property in index: %s", prop)
	}
	known := loadKnown()
	seed := 0
	if v := os.Getenv("VERIF_SEED"); v != "" {
		seed, _ = strconv.Atoi(v)
	}
	var jobs []job
	patSet := map[string]bool{}
	for i := range ps.Roots {
		r := &ps.Roots[i]
		patSet[r.Pkg] = true
		for _, t := range r.tuples(tier) {
			jobs = append(jobs, job{r, t})
		}
	}
	var pats []string
	for p := range patSet {
		pats = append(pats, p)
	}
	sort.Strings(pats)
	// exploration order only (never the verdict) depends on the seed
	if seed != 0 {
		rot := seed % len(jobs)
		if rot < 0 {
			rot = -rot
		}
		jobs = append(jobs[rot:], jobs[:rot]...)
	}
	fmt.Printf("[%s %s] %d roots over %v; loading /repo working tree...\n", prop, tier, len(jobs), pats)
	l := load(ix, pats)
	fmt.Printf("[%s] loaded + SSA built in %.1fs\n", prop, l.dur.Seconds())
	workers := 16
	if v := os.Getenv("VERIF_WORKERS"); v != "" {
		workers, _ = strconv.Atoi(v)
	}
	if workers > len(jobs) {
		workers = len(jobs)
	}
	nSamples := 1
	if tier == "thorough" {
		nSamples = 2
	}
	if os.Getenv("VERIF_XCHECK_EVERY") == "" {
		// the third assertion verdict of up to 48 (quick) / 200 (thorough) roots is re-decided on z3-new and cvc5
		os.Setenv("VERIF_XCHECK_EVERY", "3")
	}
	if tier == "thorough" {
		xcheckBudget.Store(200)
	} else {
		xcheckBudget.Store(48)
	}
	os.RemoveAll(filepath.Join(verifDir, "out", "xcheck"))
	results := runAll(l, jobs, workers, nSamples)

	// ---- aggregate
	var inconclusive []string
	var findings []*Finding
	var samples []*PathSample
	agg := struct {
		paths, done, forks, instrs, merged, asserts, q, sat, unsat, unknown int
		solverS                                                             float64
	}{}
	funcs := map[string]int{}
	stubs := map[string]int{}
	reachedAll := map[string]int{}
	xs, xa, xd, xi := 0, 0, 0, 0
	for _, r := range results {
		agg.paths += r.Paths
		agg.done += r.Done
		agg.forks += r.Forks
		agg.instrs += r.Instrs
		agg.merged += r.Merged
		agg.asserts += r.Asserts
		agg.q += r.Queries
		agg.sat += r.Sat
		agg.unsat += r.Unsat
		agg.unknown += r.Unknown
		agg.solverS += r.SolverS
		for k, v := range r.Funcs {
			funcs[k] += v
		}
		for k, v := range r.Stubs {
			stubs[k] += v
		}
		for k, v := range r.Reached {
			reachedAll[r.Spec.Fn+":"+k] += v
		}
		xs, xa, xd, xi = xs+r.XSampled, xa+r.XAgreed, xd+r.XDisagreed, xi+r.XInconcl
		if r.XDisagreed > 0 {
			inconclusive = append(inconclusive, fmt.Sprintf("%s%v: solver disagreement on %d cross-checked queries (scripts kept in out/xcheck)", r.Spec.Fn, r.Args, r.XDisagreed))
		}
		if r.Err != "" {
			inconclusive = append(inconclusive, fmt.Sprintf("%s%v: %s", r.Spec.Fn, r.Args, r.Err))
		}
		if r.Done == 0 && len(r.Findings) == 0 && r.Err == "" {
			inconclusive = append(inconclusive, fmt.Sprintf("%s%v: vacuous (no path completed)", r.Spec.Fn, r.Args))
		}
		if r.Done > 0 && r.Reached["end"] == 0 {
			inconclusive = append(inconclusive, fmt.Sprintf("%s%v: reachability witness 'end' not reached", r.Spec.Fn, r.Args))
		}
		findings = append(findings, r.Findings...)
		samples = append(samples, r.Samples...)
	}
	// limit the number of native sample validations
	maxSamples := 24
	if tier == "thorough" {
		maxSamples = 64
	}
	if len(samples) > maxSamples {
		// at least one sample of every harness function (so that a model-based harness is always confronted
		// with the real environment), the rest spread evenly
		var sel []*PathSample
		taken := map[*PathSample]bool{}
		seenRoot := map[string]bool{}
		for _, sm := range samples {
			if !seenRoot[sm.Root] {
				seenRoot[sm.Root] = true
				sel = append(sel, sm)
				taken[sm] = true
			}
		}
		rest := maxSamples - len(sel)
		if rest > 0 {
			step := float64(len(samples)) / float64(rest)
			for i := 0; i < rest; i++ {
				sm := samples[int(float64(i)*step)]
				if !taken[sm] {
					taken[sm] = true
					sel = append(sel, sm)
				}
			}
		}
		samples = sel
	}

	// ---- native: build once per package that needs it
	natives := map[string]*nativePkg{}
	getNative := func(pat string) *nativePkg {
		if np, ok := natives[pat]; ok {
			return np
		}
		np := buildNative(ix, pat)
		natives[pat] = np
		return np
	}
	os.MkdirAll(filepath.Join(verifDir, "out", "replay"), 0o755)
	os.MkdirAll(filepath.Join(verifDir, "out", "cases"), 0o755)

	validated := 0
	for i, s := range samples {
		np := getNative(s.Pkg)
		if np.err != "" {
			inconclusive = append(inconclusive, np.err)
			break
		}
		cf := mkCase(prop, s.Pkg, s.Root, s.Args, s.Model, nil)
		p := filepath.Join(verifDir, "out", "cases", fmt.Sprintf("%s-sample-%d.json", prop, i))
		b, _ := json.Marshal(cf)
		os.WriteFile(p, b, 0o644)
		var o *nativeOut
		agree := false
		why := ""
		// Go's select and goroutine scheduling are nondeterministic: a symbolic path is validated when
		// some native run (of up to 5) follows it
		for attempt := 0; attempt < 5 && !agree; attempt++ {
			o = runNative(np, p, 60*time.Second)
			agree = o.Done && o.Assert == "" && o.Panic == "" && len(o.Exhaust) == 0
			why = ""
			if !agree && o.Assert != "" {
				// the native scheduler took another interleaving and ran into an assertion that the symbolic
				// exploration of the same root reports as a finding anyway (triaged below on its own)
				for _, fd := range findings {
					if fd.Kind == "assert" && fd.ID == o.Assert && fd.Root == s.Root && fmt.Sprint(fd.Args) == fmt.Sprint(s.Args) {
						agree = true
						s.Weak = true
					}
				}
				if agree {
					break
				}
			}
			if !agree {
				why = fmt.Sprintf("native run did not complete like the symbolic path (done=%v assert=%q panic=%q assume=%v exhausted=%v hang=%v)", o.Done, o.Assert, o.Panic, o.Assume, o.Exhaust, o.Hang)
			} else if s.Weak {
				// the path depends on an uninterpreted function (crc32): the concrete run may legitimately take
				// another branch; only its outcome (no assertion failure, no panic) is comparable
			} else if len(o.Obs) != len(s.ObsSeq) {
				agree, why = false, fmt.Sprintf("observation count differs: native %d engine %d", len(o.Obs), len(s.ObsSeq))
			} else {
				for k := range o.Obs {
					if o.Obs[k].Name != s.ObsSeq[k].Name || fmt.Sprint(o.Obs[k].Vals) != fmt.Sprint(s.ObsSeq[k].Vals) {
						agree, why = false, fmt.Sprintf("observation %s differs: native %v engine %v", o.Obs[k].Name, o.Obs[k].Vals, s.ObsSeq[k].Vals)
						break
					}
				}
			}
		}
		if agree {
			validated++
			s.Native = "agrees"
		} else {
			s.Native = "DISAGREES: " + why
			inconclusive = append(inconclusive, fmt.Sprintf("translator validation failed for %s%v: %s (case %s)", s.Root, s.Args, why, p))
		}
	}

	// ---- triage findings
	violations := 0
	knownPrinted := map[string]bool{}
	var lines []string
	seenFinding := map[string]*Finding{}
	retried := map[string]int{}
	for i, f := range findings {
		gk := f.Root + "|" + f.ID + "|" + strings.Join(f.Known, ",")
		if first, ok := seenFinding[gk]; ok {
			if strings.HasPrefix(first.Verdict, "inconclusive") && (f.Kind == "assert" || f.Kind == "panic") && retried[gk] < 4 {
				// the first instance did not reproduce natively (e.g. the native scheduler did not take that
				// interleaving): try this other instance of the same finding
				retried[gk]++
				seenFinding[gk] = f
				// drop the inconclusive note of the earlier instance
				var keep []string
				for _, s := range inconclusive {
					if !strings.Contains(s, first.Replay) {
						keep = append(keep, s)
					}
				}
				inconclusive = keep
			} else {
				f.Verdict = first.Verdict + " (same finding as " + fmt.Sprint(first.Args) + ")"
				first.Paths += f.Paths
				continue
			}
		}
		seenFinding[gk] = f
		switch f.Kind {
		case "unsupported", "unknown", "blocked":
			f.Verdict = "inconclusive"
			inconclusive = append(inconclusive, fmt.Sprintf("%s%v: %s %s", f.Root, f.Args, f.Kind, f.Info))
			continue
		}
		// known finding?
		var kf *KnownFinding
		for k := range known {
			e := &known[k]
			if !e.appliesTo(prop) || e.Status != "known" {
				continue
			}
			inClass := false
			for _, c := range f.Known {
				if c == e.ID {
					inClass = true
				}
			}
			if !inClass {
				continue
			}
			for _, a := range e.Asserts {
				if strings.HasPrefix(f.ID, a) {
					kf = e
				}
			}
		}
		var spec *RootSpec
		for j := range ps.Roots {
			if ps.Roots[j].Fn == f.Root {
				spec = &ps.Roots[j]
			}
		}
		cf := mkCase(prop, f.Pkg, f.Root, f.Args, f.Model, f.Yields)
		cf.Finding = f
		if spec != nil && len(spec.NativeStress) >= 2 {
			cf.Args = append([]int(nil), cf.Args...)
			for k := 0; k+1 < len(spec.NativeStress); k += 2 {
				if spec.NativeStress[k] < len(cf.Args) {
					cf.Args[spec.NativeStress[k]] = spec.NativeStress[k+1]
				}
			}
		}
		rp := filepath.Join(verifDir, "out", "replay", fmt.Sprintf("%s-%s-%d.json", prop, f.Root, i))
		b, _ := json.MarshalIndent(cf, "", " ")
		os.WriteFile(rp, b, 0o644)
		f.Replay = rp
		reproduced := false
		detail := ""
		nativeOther := ""
		if spec != nil && spec.NoReplay {
			reproduced, detail = true, "not replayed (root marked no_replay)"
		} else if f.Model == nil {
			detail = "no model"
		} else {
			np := getNative(f.Pkg)
			if np.err != "" {
				detail = np.err
			} else {
				to := 60 * time.Second
				if f.Kind == "unwind" || f.Kind == "deadlock" {
					to = 20 * time.Second
				}
				for attempt := 0; attempt < 8 && !reproduced; attempt++ {
					o := runNative(np, rp, to)
					switch f.Kind {
					case "assert":
						reproduced = o.Assert == f.ID
						if !reproduced && o.Assert != "" && !o.Assume && !knownAssert(known, prop, o.Assert) {
							// the real code, on the solver's inputs, fails ANOTHER property assertion of the
							// same root (model and native schedules differ in which one is hit first): the
							// native failure is the violation that is reported
							reproduced = true
							nativeOther = o.Assert
						}
					case "panic":
						reproduced = o.Panic != ""
					case "unwind", "deadlock":
						reproduced = o.Hang
					}
					detail = fmt.Sprintf("native (attempt %d): done=%v assert=%q panic=%q hang=%v assume=%v", attempt+1, o.Done, o.Assert, o.Panic, o.Hang, o.Assume)
					if nativeOther != "" {
						detail += fmt.Sprintf(" [solver predicted %q; the native run of the same inputs fails %q]", f.ID, nativeOther)
					}
					if f.Kind == "unwind" || f.Kind == "deadlock" {
						break
					}
				}
			}
		}
		if kf != nil {
			f.Verdict = "known-finding"
			if !knownPrinted[kf.ID] {
				knownPrinted[kf.ID] = true
				note := ""
				if !reproduced {
					note = " (native replay did not reproduce: " + detail + ")"
				}
				lines = append(lines, fmt.Sprintf("KNOWN-FINDING: property=%s %s [%s %s]%s", prop, kf.What, kf.ID, f.ID, note))
			}
			continue
		}
		if reproduced {
			f.Verdict = "violation"
			violations++
			lines = append(lines, fmt.Sprintf("VIOLATION property=%s replay=%s", prop, rp))
			lines = append(lines, fmt.Sprintf("  %s %s in %s%v ×%d paths; %s; model: %s", f.Kind, f.ID, f.Root, f.Args, f.Paths, detail, fmtModel(f.Model)))
		} else {
			f.Verdict = "inconclusive"
			inconclusive = append(inconclusive, fmt.Sprintf("%s%v: %s %s found symbolically but not reproduced natively (%s) — encoder or model suspect; case %s", f.Root, f.Args, f.Kind, f.ID, detail, rp))
		}
	}
	// known findings that no longer show up
	for _, e := range known {
		if e.appliesTo(prop) && e.Status == "known" && !knownPrinted[e.ID] {
			relevant := false
			for _, r := range results {
				_ = r
				relevant = true
			}
			if relevant {
				lines = append(lines, fmt.Sprintf("NOTE: known finding %s (%s) was not encountered on this run", e.ID, e.What))
			}
		}
	}

	// ---- evidence
	result := "HOLDS(within bounds)"
	code := 0
	if violations > 0 {
		result, code = "VIOLATION", 1
	} else if len(inconclusive) > 0 {
		result, code = "INCONCLUSIVE", 2
	}
	repoFuncs, depFuncs, harnessFuncs := []string{}, []string{}, []string{}
	for k, v := range funcs {
		e := fmt.Sprintf("%s ×%d", k, v)
		switch {
		case strings.Contains(k, "ZZ") || strings.Contains(k, ".zz") || strings.Contains(k, "zz"):
			harnessFuncs = append(harnessFuncs, e)
		case strings.Contains(k, "github.com/oxia-db/oxia"):
			repoFuncs = append(repoFuncs, e)
		default:
			depFuncs = append(depFuncs, e)
		}
	}
	sort.Strings(repoFuncs)
	sort.Strings(depFuncs)
	sort.Strings(harnessFuncs)
	var bounds []map[string]any
	var outside []string
	outside = append(outside, ps.Outside...)
	for i := range ps.Roots {
		r := &ps.Roots[i]
		ts := r.tuples(tier)
		if len(ts) == 0 {
			continue
		}
		uw := r.Unwind
		if uw == 0 {
			uw = 64
		}
		bounds = append(bounds, map[string]any{"harness": r.Fn, "package": r.Pkg, "argument_tuples": len(ts), "first_tuple": ts[0], "last_tuple": ts[len(ts)-1], "unwind": uw, "bounds": r.Bounds, "what": r.Note})
		if r.Outside != "" {
			outside = append(outside, r.Fn+": "+r.Outside)
		}
	}
	var sampleOut []any
	for i, s := range samples {
		if i >= 6 {
			break
		}
		sampleOut = append(sampleOut, map[string]any{"harness": s.Root, "args": s.Args, "path_witness_model": fmtModel(s.Model), "observed": s.Obs, "reached": s.Reached, "native": s.Native})
	}
	nativeByHarness := map[string]int{}
	for _, s := range samples {
		if s.Native == "agrees" {
			nativeByHarness[s.Root]++
		}
	}
	for _, f := range findings {
		sampleOut = append(sampleOut, map[string]any{"finding": f.ID, "kind": f.Kind, "harness": f.Root, "args": f.Args, "model": fmtModel(f.Model), "verdict": f.Verdict, "paths": f.Paths})
	}
	if len(sampleOut) == 0 {
		sampleOut = append(sampleOut, "no completed path sampled")
	}
	var rootRows []map[string]any
	for _, r := range results {
		if len(rootRows) >= 40 {
			break
		}
		rootRows = append(rootRows, map[string]any{"root": r.Spec.Fn, "args": r.Args, "paths": r.Paths, "queries": r.Queries, "wall_s": round3(r.WallS), "findings": len(r.Findings)})
	}
	ev := Evidence{PropertyID: prop, Tier: tier, Seed: seed, Level: "model_checking", WallS: round3(time.Since(t0).Seconds()), Violations: violations, Result: result,
		Assumptions: ps.Assumptions,
		Coverage: map[string]any{
			"states":                        max(agg.paths, 0),
			"transitions":                   agg.forks + agg.paths,
			"traces_validated_against_impl": validated,
			"samples":                       sampleOut,
			"native_runs_agreeing_per_harness": nativeByHarness,
			"exhaustive":                    false,
			"technique":                     "bounded symbolic execution of go/ssa built from /repo's working tree; every assertion/panic condition decided by z3 over all values of the symbolic inputs within the bounds",
			"functions_encoded":             map[string]any{"repo": repoFuncs, "dependencies": depFuncs, "harness": harnessFuncs},
			"bounds":                        bounds,
			"outside_bounds":                outside,
			"roots":                         len(jobs),
			"roots_detail":                  rootRows,
			"completed_paths":               agg.done,
			"assertions_checked":            agg.asserts,
			"instructions_interpreted":      agg.instrs,
			"merged_returns":                agg.merged,
			"queries":                       map[string]int{"total": agg.q, "sat": agg.sat, "unsat": agg.unsat, "unknown": agg.unknown},
			"solver":                        "z3 4.8.12 via one `z3 -in` per root, push/pop per query",
			"solver_time_s":                 round3(agg.solverS),
			"load_time_s":                   round3(l.dur.Seconds()),
			"stubs_hit":                     stubs,
			"cross_check":                   map[string]any{"solvers": "z3-new 5.1.0, cvc5 1.0.3 (standalone SMT-LIB2 script per sampled verdict query)", "sampled": xs, "agreed": xa, "disagreed": xd, "other_solver_unknown_or_timeout": xi},
			"reach_labels":                  reachedAll,
			"inconclusive":                  inconclusive,
			"findings":                      findings,
			"explanation":                   "states = symbolic paths explored to completion or to a finding; transitions = feasible branch decisions + path ends; traces_validated_against_impl = path-witness models executed natively against the real package (go test -overlay) whose outcome and observations agreed with the symbolic run",
		}}
	if ev.Coverage["states"].(int) == 0 {
		ev.Coverage["states"] = 1
	}
	if ev.Assumptions == nil {
		ev.Assumptions = []string{}
	}
	os.MkdirAll(filepath.Join(verifDir, "evidence"), 0o755)
	b, _ := json.MarshalIndent(ev, "", " ")
	os.WriteFile(filepath.Join(verifDir, "evidence", prop+".json"), b, 0o644)

	for _, l := range lines {
		fmt.Println(l)
	}
	for _, s := range inconclusive {
		fmt.Println("INCONCLUSIVE:", s)
	}
	fmt.Printf("[%s %s] %s: roots=%d paths=%d asserts-checked=%d queries=%d (sat %d / unsat %d / unknown %d) solver=%.1fs validated-natively=%d wall=%.1fs\n",
		prop, tier, result, len(jobs), agg.paths, agg.asserts, agg.q, agg.sat, agg.unsat, agg.unknown, agg.solverS, validated, time.Since(t0).Seconds())
	return code
}

func round3(f float64) float64 { return float64(int64(f*1000)) / 1000 }

func cmdReplay(path string) int {
	b, err := os.ReadFile(path)
	if err != nil {
		fatal(2, "%v", err)
	}
	var cf caseFile
	if err := json.Unmarshal(b, &cf); err != nil {
		fatal(2, "%v", err)
	}
	ix := loadIndex()
	np := buildNative(ix, cf.Pkg)
	if np.err != "" {
		fatal(2, "%s", np.err)
	}
	o := runNative(np, path, 60*time.Second)
	fmt.Print(o.Raw)
	if o.Assert != "" || o.Panic != "" || o.Hang {
		fmt.Printf("REPRODUCED: assert=%q panic=%q hang=%v\n", o.Assert, o.Panic, o.Hang)
		return 1
	}
	fmt.Println("not reproduced")
	return 0
}

func (e *KnownFinding) appliesTo(prop string) bool {
	if e.Property == prop {
		return true
	}
	for _, a := range e.Also {
		if a == prop {
			return true
		}
	}
	return false
}

// knownAssert: does a failing assertion name belong to a listed (status known) finding of the property?
func knownAssert(known []KnownFinding, prop, id string) bool {
	for k := range known {
		e := &known[k]
		if !e.appliesTo(prop) || e.Status != "known" {
			continue
		}
		for _, a := range e.Asserts {
			if strings.HasPrefix(id, a) {
				return true
			}
		}
	}
	return false
}
