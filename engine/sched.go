package main

import (
	"fmt"
	"strings"
	"go/token"
	"go/types"

	"golang.org/x/tools/go/ssa"
)

type G struct {
	id     int
	frames []*Frame
	done   bool
	daemon bool // background goroutine whose steps commute with the others: scheduled first, without forking
	lockYield bool // this goroutine has already been offered for preemption at its pending Lock call
}

var daemonPatterns = []string{"notificationsTrimmer).run", "wal.trimmer).run"}

type lockState struct {
	writer  int // goroutine id+1, 0 = none
	readers int
}

func lockKey(p Ptr) string { return fmt.Sprintf("%d/%v", p.obj, p.path) }

func (s *State) saveCur() { s.gs[s.cur].frames = s.frames }

func (s *State) switchTo(i int) {
	s.saveCur()
	s.cur = i
	s.frames = s.gs[i].frames
}

// nextInstr returns the next instruction of goroutine i (nil if none).
func (s *State) nextInstr(i int) (ssa.Instruction, *Frame) {
	fr := s.gs[i].frames
	if i == s.cur {
		fr = s.frames
	}
	if len(fr) == 0 {
		return nil, nil
	}
	f := fr[len(fr)-1]
	if f.idx >= len(f.blk.Instrs) {
		return nil, f
	}
	return f.blk.Instrs[f.idx], f
}

func (s *State) evalIn(f *Frame, v ssa.Value) Value {
	switch x := v.(type) {
	case *ssa.Const:
		return s.m.constVal(x)
	case *ssa.Global:
		return Ptr{obj: s.m.globalObj(s, x)}
	case *ssa.Function:
		return FuncV{fn: x}
	}
	return f.env[v]
}

func (m *Machine) chanReady(s *State, p Ptr, send bool) bool {
	if p.obj == 0 {
		return false
	}
	ch := s.load(p).(ChanV)
	if send {
		return ch.closed || len(ch.buf) < ch.cap
	}
	return len(ch.buf) > 0 || ch.closed
}

// ready tells whether goroutine i can make progress on its next instruction.
func (m *Machine) ready(s *State, i int) bool {
	if s.gs[i].done {
		return false
	}
	in, f := s.nextInstr(i)
	if in == nil {
		return true
	}
	switch x := in.(type) {
	case *ssa.Send:
		return m.chanReady(s, s.evalIn(f, x.Chan).(Ptr), true)
	case *ssa.UnOp:
		if x.Op == token.ARROW {
			return m.chanReady(s, s.evalIn(f, x.X).(Ptr), false)
		}
	case *ssa.Select:
		if !x.Blocking {
			return true
		}
		for _, st := range x.States {
			if m.chanReady(s, s.evalIn(f, st.Chan).(Ptr), st.Dir == types.SendOnly) {
				return true
			}
		}
		return false
	case *ssa.Call:
		if callee := x.Common().StaticCallee(); callee != nil && len(x.Common().Args) > 0 {
			name := callee.String()
			switch name {
			case "(*sync.Mutex).Lock", "(*sync.RWMutex).Lock":
				ls := s.locks[lockKey(s.evalIn(f, x.Common().Args[0]).(Ptr))]
				return ls.writer == 0 && ls.readers == 0
			case "(*sync.RWMutex).RLock":
				ls := s.locks[lockKey(s.evalIn(f, x.Common().Args[0]).(Ptr))]
				return ls.writer == 0
			case "(*sync.WaitGroup).Wait":
				return s.wgs[lockKey(s.evalIn(f, x.Common().Args[0]).(Ptr))] == 0
			}
		}
	}
	return true
}

// schedule picks the next goroutine to run. Returns successor states when it forks, nil when s
// simply continues (possibly after a switch). Sets status "deadlock" when nothing can run.
func (m *Machine) schedule(s *State, includeCur bool) []*State {
	var cands []int
	for i := range s.gs {
		if i == s.cur && !includeCur {
			continue
		}
		if m.ready(s, i) {
			cands = append(cands, i)
		}
	}
	if len(cands) == 0 {
		s.fail("deadlock", m.describeBlocked(s))
		return nil
	}
	for _, ci := range cands {
		if s.gs[ci].daemon {
			cands = []int{ci}
			break
		}
	}
	if len(cands) == 1 {
		if cands[0] != s.cur {
			s.switchTo(cands[0])
		}
		return nil
	}
	if s.atPreempt {
		m.stubs["sched-fork:lock-preemption"] += len(cands) - 1
	} else if includeCur {
		m.stubs["sched-fork:yield"] += len(cands) - 1
	} else {
		m.stubs["sched-fork:block-or-exit"] += len(cands) - 1
	}
	var out []*State
	atPreempt := s.atPreempt
	for k, ci := range cands {
		st := s
		if k < len(cands)-1 {
			st = s.clone()
			m.stats.forks++
		}
		if ci != st.cur {
			if atPreempt {
				st.preemptions++
			}
			st.switchTo(ci)
		}
		st.atPreempt = false
		st.sched = append(append([]int(nil), st.sched...), ci)
		out = append(out, st)
	}
	return out
}

func (m *Machine) describeBlocked(s *State) string {
	r := ""
	for i, g := range s.gs {
		if g.done {
			continue
		}
		in, f := s.nextInstr(i)
		if in != nil {
			pos := m.prog.Fset.Position(in.Pos())
			r += fmt.Sprintf("[g%d %s %s:%d] ", i, f.fn.Name(), shortFile(pos.Filename), pos.Line)
		}
	}
	return r
}

// block is called by an instruction of the current goroutine that cannot proceed: it will be
// re-executed when the goroutine is scheduled again.
func (m *Machine) block(s *State, f *Frame) []*State {
	f.idx--
	succ := m.schedule(s, false)
	if succ == nil && s.status == "" {
		return []*State{s} // switched: make the run loop re-read the frame
	}
	return succ
}

var skipGoPatterns = []string{}

func (m *Machine) spawn(s *State, fn *ssa.Function, args, free []Value) {
	if fn == nil || fn.Blocks == nil {
		return
	}
	for _, p := range append(append([]string(nil), skipGoPatterns...), m.skipGo...) {
		if strings.Contains(fn.String(), p) {
			m.stubs["goroutine not started in this harness (checked by its own harness / played by the harness): "+p]++
			return
		}
	}
	m.funcsSeen[fn.String()]++
	fr := &Frame{fn: fn, env: map[ssa.Value]Value{}, blk: fn.Blocks[0], loops: map[int]int{}}
	for i, p := range fn.Params {
		fr.env[p] = args[i]
	}
	for i, fv := range fn.FreeVars {
		fr.env[fv] = free[i]
	}
	g := &G{id: len(s.gs), frames: []*Frame{fr}}
	for _, p := range daemonPatterns {
		if strings.Contains(fn.String(), p) {
			g.daemon = true
			m.stubs["background goroutine scheduled eagerly without forking (its steps commute): "+p]++
		}
	}
	s.gs = append(s.gs, g)
}

func (m *Machine) execGo(s *State, f *Frame, x *ssa.Go) {
	cc := x.Common()
	var args []Value
	for _, a := range cc.Args {
		args = append(args, s.get(a))
	}
	if cc.IsInvoke() {
		recv := s.get(cc.Value).(IfaceV)
		fn := m.prog.MethodValue(m.prog.MethodSets.MethodSet(recv.typ).Lookup(cc.Method.Pkg(), cc.Method.Name()))
		m.spawn(s, fn, append([]Value{recv.v}, args...), nil)
		return
	}
	if callee := cc.StaticCallee(); callee != nil {
		if callee.String() == "github.com/oxia-db/oxia/common/process.DoWithLabels" {
			fv := args[2].(FuncV)
			m.spawn(s, fv.fn, nil, fv.free)
			return
		}
		var free []Value
		if mc, ok := cc.Value.(*ssa.MakeClosure); ok {
			free = s.get(mc).(FuncV).free
		}
		m.spawn(s, callee, args, free)
		return
	}
	fv := s.get(cc.Value).(FuncV)
	m.spawn(s, fv.fn, args, fv.free)
}

// syncBlocking handles Lock/Unlock/WaitGroup with real blocking semantics. Returns handled, successors.
func (m *Machine) syncBlocking(s *State, f *Frame, name string, args []Value) (bool, []*State) {
	switch name {
	case "(*sync.Mutex).Lock", "(*sync.RWMutex).Lock":
		k := lockKey(args[0].(Ptr))
		ls := s.locks[k]
		if ls.writer != 0 || ls.readers != 0 {
			return true, m.block(s, f)
		}
		if m.preemptLock && len(s.gs) > 1 && !s.gs[s.cur].daemon && m.preemptHere(f) {
			g := s.gs[s.cur]
			if !g.lockYield && s.preemptions < m.preemptBound {
				// preemption point right before a lock acquisition (context-bounded)
				g.lockYield = true
				f.idx--
				s.atPreempt = true
				succ := m.schedule(s, true)
				s.atPreempt = false
				if succ == nil && s.status == "" {
					return true, []*State{s}
				}
				return true, succ
			}
			g.lockYield = false
		}
		ls.writer = s.cur + 1
		s.locks[k] = ls
		return true, nil
	case "(*sync.Mutex).Unlock", "(*sync.RWMutex).Unlock":
		k := lockKey(args[0].(Ptr))
		ls := s.locks[k]
		ls.writer = 0
		s.locks[k] = ls
		if m.preemptLock && len(s.gs) > 1 && !s.gs[s.cur].daemon && m.preemptHere(f) && s.preemptions < m.preemptBound {
			// preemption point right after releasing a lock (context-bounded)
			s.atPreempt = true
			succ := m.schedule(s, true)
			s.atPreempt = false
			if succ == nil && s.status == "" {
				return true, []*State{s}
			}
			return true, succ
		}
		return true, nil
	case "(*sync.RWMutex).RLock":
		k := lockKey(args[0].(Ptr))
		ls := s.locks[k]
		if ls.writer != 0 {
			return true, m.block(s, f)
		}
		ls.readers++
		s.locks[k] = ls
		return true, nil
	case "(*sync.RWMutex).RUnlock":
		k := lockKey(args[0].(Ptr))
		ls := s.locks[k]
		ls.readers--
		s.locks[k] = ls
		return true, nil
	case "(*sync.WaitGroup).Add":
		k := lockKey(args[0].(Ptr))
		s.wgs[k] += sext(sc(args[1]).cv, 64)
		return true, nil
	case "(*sync.WaitGroup).Done":
		k := lockKey(args[0].(Ptr))
		s.wgs[k]--
		return true, nil
	case "(*sync.WaitGroup).Wait":
		k := lockKey(args[0].(Ptr))
		if s.wgs[k] != 0 {
			return true, m.block(s, f)
		}
		return true, nil
	}
	return false, nil
}

// preemptHere: lock preemption points are restricted to the mutexes named by the root (substring of the
// function performing the Lock call, e.g. the promoted (*followerController).Lock wrapper).
func (m *Machine) preemptHere(f *Frame) bool {
	if len(m.preemptAt) == 0 {
		return true
	}
	for _, p := range m.preemptAt {
		if strings.Contains(f.fn.String(), p) {
			return true
		}
	}
	return false
}
