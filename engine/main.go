package main

import (
	"encoding/json"
	"fmt"
	"os"
	"path/filepath"
	"sort"
	"strings"
	"sync"
	"sync/atomic"
	"time"

	"golang.org/x/tools/go/packages"
	"golang.org/x/tools/go/ssa"
	"golang.org/x/tools/go/ssa/ssautil"
)

// ---------------------------------------------------------------- index

type RootSpec struct {
	Pkg          string            `json:"pkg"`              // package pattern relative to /repo, e.g. ./common/compare
	Fn           string            `json:"fn"`               // harness function
	Quick        [][]int           `json:"quick"`            // explicit argument tuples
	Thorough     [][]int           `json:"thorough"`         // explicit argument tuples (in addition to quick)
	QuickP       [][]int           `json:"quick_product"`    // [[lo,hi],...] cartesian product
	ThoroughP    [][]int           `json:"thorough_product"` //
	Unwind       int               `json:"unwind"`
	Summarize    []string          `json:"summarize"`
	Note         string            `json:"note"`
	Bounds       string            `json:"bounds"`
	Outside      string            `json:"outside"`
	NoReplay     bool              `json:"no_replay"` // findings of this root cannot be replayed natively (stated)
	MaxPaths     int               `json:"max_paths"`
	Replace      map[string]string `json:"replace"`           // callee (full name) -> harness function with the same signature, engine side only
	PreemptBound int               `json:"preemption_bound"`  // max preemptive context switches per path (default 2)
	NativeStress []int             `json:"native_stress"`     // [argIndex, value]: when a finding of this root is replayed natively, that argument (a repetition count) is raised so that the native scheduler gets many chances to take the interleaving
	PreemptAt    []string          `json:"preempt_at"`        // restrict lock preemption points to Lock calls made from functions matching one of these substrings
	PreemptLock  bool              `json:"preempt_at_lock"`
	PreemptSelect bool              `json:"preempt_at_select"`   // every mutex acquisition is a preemption point
	TimersWait   bool              `json:"timers_may_wait"`   // a select whose only ready cases are timers also explores "the timer fires later, after the other runnable goroutines"
	TickerFires  int               `json:"ticker_fires"`      // time.NewTicker fires up to k times (default 0: never)
	TimersOff    bool              `json:"timers_never_fire"` // time.NewTimer never fires in this root (default: may fire at any moment)
	SkipGo       []string          `json:"skip_go"`           // goroutines (by function-name substring) that are not started in this root
}

type PropSpec struct {
	Level       string     `json:"level"`
	Roots       []RootSpec `json:"roots"`
	Assumptions []string   `json:"assumptions"`
	Outside     []string   `json:"outside"`
}

type Index struct {
	HarnessDirs map[string]string   `json:"harness_dirs"` // package pattern -> dir under /verif/harness
	Shared      map[string][]string `json:"shared"`       // package pattern -> template files under /verif/harness/shared
	Properties  map[string]PropSpec `json:"properties"`
}

type KnownFinding struct {
	Property string   `json:"property"`
	Also     []string `json:"also"`    // other properties whose checks run the same harness
	ID       string   `json:"id"`      // vKnown class id
	Asserts  []string `json:"asserts"` // finding ids (assert id / panic id prefix) this class explains
	What     string   `json:"what"`
	Status   string   `json:"status"` // "known" | "fixed"
	Commit   string   `json:"commit,omitempty"`
}

var verifDir = "/verif"
var repoDir = "/repo"

func loadIndex() *Index {
	b, err := os.ReadFile(filepath.Join(verifDir, "harness", "index.json"))
	if err != nil {
		fatal(2, "cannot read index: %v", err)
	}
	var ix Index
	if err := json.Unmarshal(b, &ix); err != nil {
		fatal(2, "index.json: %v", err)
	}
	return &ix
}

func loadKnown() []KnownFinding {
	b, err := os.ReadFile(filepath.Join(verifDir, "known_findings.json"))
	if err != nil {
		return nil
	}
	var kf struct {
		Findings []KnownFinding `json:"findings"`
	}
	if err := json.Unmarshal(b, &kf); err != nil {
		fatal(2, "known_findings.json: %v", err)
	}
	return kf.Findings
}

func fatal(code int, f string, a ...any) {
	fmt.Fprintf(os.Stderr, f+"\n", a...)
	os.Exit(code)
}

func product(ranges [][]int) [][]int {
	out := [][]int{{}}
	for _, r := range ranges {
		var next [][]int
		for _, p := range out {
			for v := r[0]; v <= r[1]; v++ {
				next = append(next, append(append([]int(nil), p...), v))
			}
		}
		out = next
	}
	return out
}

func (r *RootSpec) tuples(tier string) [][]int {
	var out [][]int
	seen := map[string]bool{}
	add := func(ts [][]int) {
		for _, t := range ts {
			k := fmt.Sprint(t)
			if !seen[k] {
				seen[k] = true
				out = append(out, t)
			}
		}
	}
	add(r.Quick)
	if r.QuickP != nil {
		add(product(r.QuickP))
	}
	if tier == "thorough" {
		add(r.Thorough)
		if r.ThoroughP != nil {
			add(product(r.ThoroughP))
		}
	}
	if len(out) == 0 && r.Quick == nil && r.Thorough == nil && r.QuickP == nil && r.ThoroughP == nil {
		out = [][]int{{}} // a harness without parameters
	}
	return out
}

// ---------------------------------------------------------------- loading

const rtDecl = `
import (
	zzcontext "context"
	zzsync "sync"
	zztime "time"
)

// Model of sync.Map (engine side only): an association list per map object.
type zzSyncMapEnt struct{ k, v any }
type zzSyncMapModel struct{ ents []zzSyncMapEnt }

var zzSyncMaps = map[*zzsync.Map]*zzSyncMapModel{}

func zzSyncMapOf(m *zzsync.Map) *zzSyncMapModel {
	if sm, ok := zzSyncMaps[m]; ok {
		return sm
	}
	sm := &zzSyncMapModel{}
	zzSyncMaps[m] = sm
	return sm
}
func zzSyncMapLoad(m *zzsync.Map, k any) (any, bool) {
	for _, e := range zzSyncMapOf(m).ents {
		if e.k == k {
			return e.v, true
		}
	}
	return nil, false
}
func zzSyncMapStore(m *zzsync.Map, k, v any) {
	sm := zzSyncMapOf(m)
	for i := range sm.ents {
		if sm.ents[i].k == k {
			sm.ents[i].v = v
			return
		}
	}
	sm.ents = append(sm.ents, zzSyncMapEnt{k, v})
}
func zzSyncMapLoadOrStore(m *zzsync.Map, k, v any) (any, bool) {
	if old, ok := zzSyncMapLoad(m, k); ok {
		return old, true
	}
	zzSyncMapStore(m, k, v)
	return v, false
}
func zzSyncMapDelete(m *zzsync.Map, k any) {
	sm := zzSyncMapOf(m)
	for i := range sm.ents {
		if sm.ents[i].k == k {
			sm.ents = append(append([]zzSyncMapEnt(nil), sm.ents[:i]...), sm.ents[i+1:]...)
			return
		}
	}
}
func zzSyncMapLoadAndDelete(m *zzsync.Map, k any) (any, bool) {
	v, ok := zzSyncMapLoad(m, k)
	if ok {
		zzSyncMapDelete(m, k)
	}
	return v, ok
}
func zzSyncMapRange(m *zzsync.Map, f func(k, v any) bool) {
	for _, e := range append([]zzSyncMapEnt(nil), zzSyncMapOf(m).ents...) {
		if !f(e.k, e.v) {
			return
		}
	}
}

// Model of cancellable contexts (engine side only; the native build uses the real package).
type zzCancelCtx struct {
	parent   zzcontext.Context
	done     chan struct{}
	err      error
	children []*zzCancelCtx
}

func (c *zzCancelCtx) Deadline() (zztime.Time, bool) { return zztime.Time{}, false }
func (c *zzCancelCtx) Done() <-chan struct{}         { return c.done }
func (c *zzCancelCtx) Err() error                    { return c.err }
func (c *zzCancelCtx) Value(k any) any               { return c.parent.Value(k) }
func (c *zzCancelCtx) cancel() {
	if c.err != nil {
		return
	}
	c.err = zzcontext.Canceled
	close(c.done)
	for _, ch := range c.children {
		ch.cancel()
	}
}
// Model of context.WithValue (the real one asks reflectlite whether the key is comparable).
type zzValueCtx struct {
	zzcontext.Context
	key, val any
}

func (c *zzValueCtx) Value(k any) any {
	if k == c.key {
		return c.val
	}
	return c.Context.Value(k)
}
func zzWithValue(parent zzcontext.Context, key, val any) zzcontext.Context {
	return &zzValueCtx{parent, key, val}
}
func zzWithCancel(parent zzcontext.Context) (zzcontext.Context, zzcontext.CancelFunc) {
	c := &zzCancelCtx{parent: parent, done: make(chan struct{})}
	if p, ok := parent.(*zzCancelCtx); ok {
		if p.err != nil {
			c.cancel()
		} else {
			p.children = append(p.children, c)
		}
	} else if parent.Err() != nil {
		c.cancel()
	}
	return c, func() { c.cancel() }
}

func vByte(n string) byte
func vUint16(n string) uint16
func vUint32(n string) uint32
func vUint64(n string) uint64
func vInt32(n string) int32
func vInt64(n string) int64
func vInt(n string) int
func vBool(n string) bool
func vBytes(n string, l int) []byte
func vChoice(n string, k int) int
func vAssume(c bool)
func vAssert(id string, c bool)
func vReach(id string)
func vObserve(n string, v int64)
func vObserveB(n string, b []byte)
func vKnown(id string, c bool) bool
func vYield(id string)
func vGo(name string, f func())
func vSeqPart(key, prefix string, idx int) uint64
func vTempDir() string
func vSleep(ms int)
func vSettle(ms int)
`

type Loaded struct {
	prog  *ssa.Program
	spkgs map[string]*ssa.Package // by pattern
	dur   time.Duration
}

func pkgDir(pat string) string { return filepath.Join(repoDir, strings.TrimPrefix(pat, "./")) }

// harnessFiles returns the harness sources (name -> content) for a package pattern.
func harnessFiles(ix *Index, pat string) map[string][]byte {
	dir, ok := ix.HarnessDirs[pat]
	if !ok {
		fatal(2, "no harness dir for %s", pat)
	}
	files, _ := filepath.Glob(filepath.Join(verifDir, "harness", dir, "*.go"))
	sort.Strings(files)
	out := map[string][]byte{}
	for _, f := range files {
		b, err := os.ReadFile(f)
		if err != nil {
			fatal(2, "%v", err)
		}
		out[filepath.Base(f)] = b
	}
	if len(out) == 0 {
		fatal(2, "no harness files in %s", dir)
	}
	var clause string
	for _, src := range out {
		clause = packageClause(src)
	}
	for _, sh := range ix.Shared[pat] {
		b, err := os.ReadFile(filepath.Join(verifDir, "harness", "shared", sh))
		if err != nil {
			fatal(2, "%v", err)
		}
		txt := strings.Replace(string(b), "package PKG", clause, 1)
		if pat == "./server/kv" {
			var keep []string
			for _, l := range strings.Split(txt, "\n") {
				if !strings.Contains(l, "//IMPORT-KV") {
					keep = append(keep, l)
				}
			}
			txt = strings.ReplaceAll(strings.Join(keep, "\n"), "kvq.", "")
		}
		out["shared_"+sh] = []byte(txt)
	}
	return out
}

func packageClause(src []byte) string {
	for _, l := range strings.Split(string(src), "\n") {
		if strings.HasPrefix(l, "package ") {
			return strings.TrimSpace(l)
		}
	}
	return ""
}

func load(ix *Index, pats []string) *Loaded {
	t0 := time.Now()
	overlay := map[string][]byte{}
	for _, pat := range pats {
		hf := harnessFiles(ix, pat)
		var clause string
		for name, src := range hf {
			overlay[filepath.Join(pkgDir(pat), "zz_verif_"+name)] = src
			clause = packageClause(src)
		}
		overlay[filepath.Join(pkgDir(pat), "zz_verif_rt.go")] = []byte(clause + "\n" + rtDecl)
	}
	cfg := &packages.Config{
		Mode: packages.LoadAllSyntax, Dir: repoDir, Overlay: overlay,
		Env: append(os.Environ(), "GOFLAGS=-mod=mod", "GOPROXY=off"),
	}
	pkgs, err := packages.Load(cfg, pats...)
	if err != nil {
		fatal(2, "INCONCLUSIVE(load): %v", err)
	}
	if packages.PrintErrors(pkgs) > 0 {
		fatal(2, "INCONCLUSIVE(load): /repo with the harness overlay does not type-check")
	}
	prog, spkgs := ssautil.AllPackages(pkgs, ssa.InstantiateGenerics)
	prog.Build()
	l := &Loaded{prog: prog, spkgs: map[string]*ssa.Package{}, dur: time.Since(t0)}
	for i, p := range pkgs {
		// map patterns to packages by directory
		for _, pat := range pats {
			if len(p.GoFiles) > 0 && filepath.Dir(p.GoFiles[0]) == pkgDir(pat) {
				l.spkgs[pat] = spkgs[i]
			}
		}
	}
	for _, pat := range pats {
		if l.spkgs[pat] == nil {
			fatal(2, "INCONCLUSIVE(load): package %s not found", pat)
		}
	}
	return l
}

// ---------------------------------------------------------------- running roots

type NdVal struct {
	Name string `json:"name"`
	Val  uint64 `json:"val"`
}

type Finding struct {
	Kind   string   `json:"kind"` // assert | panic | unwind | unsupported | unknown | deadlock | blocked
	ID     string   `json:"id"`
	Info   string   `json:"info,omitempty"`
	Model  []NdVal  `json:"model,omitempty"`
	Yields []string `json:"yields,omitempty"`
	Sched  []int    `json:"sched,omitempty"`
	Known  []string `json:"known,omitempty"`
	Paths  int      `json:"paths"`
	Root   string   `json:"root"`
	Args   []int    `json:"args"`
	Pkg    string   `json:"pkg"`
	// filled by triage
	Verdict string `json:"verdict,omitempty"`
	Replay  string `json:"replay,omitempty"`
}

type PathSample struct {
	Root    string              `json:"root"`
	Args    []int               `json:"args"`
	Pkg     string              `json:"pkg"`
	Model   []NdVal             `json:"model"`
	Obs     map[string][]uint64 `json:"observed,omitempty"`
	ObsSeq  []ObsVal            `json:"-"`
	Reached []string            `json:"reached"`
	Yields  []string            `json:"yields,omitempty"`
	Native  string              `json:"native,omitempty"`
	Weak    bool                `json:"uf_dependent,omitempty"`
}

type ObsVal struct {
	Name string
	Vals []uint64
}

type RootResult struct {
	Spec                                    *RootSpec
	Args                                    []int
	Paths                                   int
	Done                                    int
	Forks                                   int
	Instrs                                  int
	Merged                                  int
	Asserts                                 int
	Queries                                 int
	Sat                                     int
	Unsat                                   int
	Unknown                                 int
	SolverS                                 float64
	WallS                                   float64
	Reached                                 map[string]int
	Findings                                []*Finding
	Funcs                                   map[string]int
	Samples                                 []*PathSample
	Stubs                                   map[string]int
	Lazy                                    []string
	Err                                     string
	XSampled, XAgreed, XDisagreed, XInconcl int
}

func newMachine(l *Loaded, spec *RootSpec, solverBin string) *Machine {
	m := &Machine{ctx: NewCtx(), prog: l.prog, globals: map[*ssa.Global]int{}, sentinel: map[string]*ErrV{},
		unwind: spec.Unwind, summarize: map[string]bool{}, funcsSeen: map[string]int{},
		initPkgs: map[string]bool{}, initDone: map[*ssa.Package]bool{}, stubs: map[string]int{}}
	if m.unwind == 0 {
		m.unwind = 64
	}
	for _, s := range spec.Summarize {
		m.summarize[s] = true
	}
	m.skipGo = spec.SkipGo
	m.timersOff = spec.TimersOff
	m.timersWait = spec.TimersWait
	m.tickerFires = spec.TickerFires
	m.preemptLock = spec.PreemptLock
	m.preemptSelect = spec.PreemptSelect
	m.preemptBound = spec.PreemptBound
	m.preemptAt = spec.PreemptAt
	if m.preemptBound == 0 {
		m.preemptBound = 2
	}
	m.replace = spec.Replace
	m.ctx.solver = NewSolver(solverBin, "-in", "-t:20000")
	return m
}

func runRoot(l *Loaded, spec *RootSpec, args []int, nSamples int) (res *RootResult) {
	res = &RootResult{Spec: spec, Args: args, Reached: map[string]int{}}
	t0 := time.Now()
	m := newMachine(l, spec, "z3")
	if v := os.Getenv("VERIF_XCHECK_EVERY"); v != "" {
		fmt.Sscan(v, &m.xcheckEvery)
		m.xcheckMax = 1
		if xcheckBudget.Add(-1) < 0 {
			m.xcheckEvery = 0
		}
		m.xcheckDir = filepath.Join(verifDir, "out", "xcheck")
		m.xcheckTag = fmt.Sprintf("%s-%s", spec.Fn, strings.Trim(strings.ReplaceAll(fmt.Sprint(args), " ", "_"), "[]"))
	}
	defer func() {
		if r := recover(); r != nil {
			if os.Getenv("VERIF_PANIC") != "" {
				panic(r)
			}
			where := ""
			if m.curFn != nil {
				where = fmt.Sprintf(" [in %s: %s @ %s]", m.curFn, m.curIn, m.prog.Fset.Position(m.curIn.Pos()))
				if m.curSt != nil {
					for i := len(m.curSt.frames) - 1; i >= 0 && i >= len(m.curSt.frames)-6; i-- {
						where += " <- " + m.curSt.frames[i].fn.String()
					}
				}
			}
			res.Err = fmt.Sprintf("engine panic: %v%s", r, where)
		}
		m.ctx.solver.Close()
		res.WallS = time.Since(t0).Seconds()
		sv := m.ctx.solver
		res.Queries, res.Sat, res.Unsat, res.Unknown, res.SolverS = sv.queries, sv.sat, sv.unsat, sv.unknown, sv.dur.Seconds()
		res.Forks, res.Instrs, res.Merged, res.Asserts = m.stats.forks, m.stats.instrs, m.stats.merged, m.assertsChecked
		res.Funcs = m.funcsSeen
		res.Stubs = m.stubs
		res.Lazy = m.lazyInits
		x := m.ctx.xcheck
		res.XSampled, res.XAgreed, res.XDisagreed, res.XInconcl = x.sampled, x.agreed, x.disagreed, x.inconclusive
	}()
	hpkg := l.spkgs[spec.Pkg]
	hf := hpkg.Func(spec.Fn)
	if hf == nil {
		res.Err = "harness function not found: " + spec.Fn
		return
	}
	m.initPkgs[hpkg.Pkg.Path()] = true
	m.hpkg = hpkg
	st := m.newState()
	m.tolerant = true
	m.pushFrame(st, hpkg.Func("init"), nil, nil, nil)
	m.subrun++
	succ0 := m.run(st, 0)
	m.subrun--
	m.tolerant = false
	if succ0 != nil || (st.status != "done" && st.status != "") {
		res.Err = "package init forked or failed: " + st.status + " " + st.info
		return
	}
	st.status = ""
	m.stats.instrs = 0
	var hargs []Value
	if len(args) != len(hf.Params) {
		res.Err = fmt.Sprintf("harness %s takes %d args, got %d", spec.Fn, len(hf.Params), len(args))
		return
	}
	for _, a := range args {
		hargs = append(hargs, Sc{m.ctx.BV(uint64(int64(a)), 64)})
	}
	m.pushFrame(st, hf, hargs, nil, nil)
	work := []*State{st}
	byID := map[string]*Finding{}
	if v := os.Getenv("VERIF_MAXPATHS"); v != "" {
		fmt.Sscan(v, &spec.MaxPaths)
	}
	maxPaths := spec.MaxPaths
	if maxPaths == 0 {
		maxPaths = 2000000
	}
	for len(work) > 0 {
		s := work[len(work)-1]
		work = work[:len(work)-1]
		succ := m.run(s, 0)
		if succ != nil {
			work = append(work, succ...)
			continue
		}
		switch s.status {
		case "infeasible", "assume-false":
			continue
		}
		res.Paths++
		if res.Paths > maxPaths {
			res.Err = fmt.Sprintf("path budget %d exceeded", maxPaths)
			return
		}
		if s.status == "done" {
			res.Done++
			for k := range s.reached {
				res.Reached[k]++
			}
			if len(res.Samples) < nSamples {
				if ps := m.samplePath(s, spec, args); ps != nil {
					res.Samples = append(res.Samples, ps)
				}
			}
			continue
		}
		id := s.status + ":" + s.info
		if s.status == "assert" {
			id = s.info
		}
		key := id + "|" + strings.Join(s.known, ",")
		if f, ok := byID[key]; ok {
			f.Paths++
			continue
		}
		f := &Finding{Kind: s.status, ID: id, Info: s.info, Known: s.known, Paths: 1, Root: spec.Fn, Args: args, Pkg: spec.Pkg,
			Yields: s.yields, Sched: s.sched}
		f.Model = m.modelOf(s)
		byID[key] = f
		res.Findings = append(res.Findings, f)
	}
	return
}

// modelOf asks the solver for a valuation of the path's nondets.
func (m *Machine) modelOf(s *State) []NdVal {
	var want []*Term
	for _, n := range s.nd {
		want = append(want, n.t)
	}
	r, model := m.ctx.Check(s.pc, want)
	if r != "sat" {
		return nil
	}
	out := make([]NdVal, 0, len(s.nd))
	for _, n := range s.nd {
		out = append(out, NdVal{n.name, model[n.t]})
	}
	return out
}

func (m *Machine) samplePath(s *State, spec *RootSpec, args []int) *PathSample {
	var want []*Term
	for _, n := range s.nd {
		want = append(want, n.t)
	}
	for _, o := range s.obs {
		want = append(want, o.ts...)
	}
	r, model := m.ctx.Check(s.pc, want)
	if r != "sat" {
		return nil
	}
	ps := &PathSample{Root: spec.Fn, Args: args, Pkg: spec.Pkg, Obs: map[string][]uint64{}, Yields: s.yields, Weak: s.uf}
	for _, n := range s.nd {
		ps.Model = append(ps.Model, NdVal{n.name, model[n.t]})
	}
	for _, o := range s.obs {
		var vs []uint64
		for _, t := range o.ts {
			vs = append(vs, model[t])
		}
		ps.ObsSeq = append(ps.ObsSeq, ObsVal{o.name, vs})
		ps.Obs[o.name] = vs
	}
	for k := range s.reached {
		ps.Reached = append(ps.Reached, k)
	}
	sort.Strings(ps.Reached)
	return ps
}

var xcheckBudget atomic.Int64

type job struct {
	spec *RootSpec
	args []int
}

func runAll(l *Loaded, jobs []job, workers, nSamples int) []*RootResult {
	results := make([]*RootResult, len(jobs))
	var wg sync.WaitGroup
	ch := make(chan int)
	for w := 0; w < workers; w++ {
		wg.Add(1)
		go func() {
			defer wg.Done()
			for i := range ch {
				results[i] = runRoot(l, jobs[i].spec, jobs[i].args, nSamples)
				r := results[i]
				if os.Getenv("VERIF_VERBOSE") != "" {
					fmt.Fprintf(os.Stderr, "  root %s%v: paths=%d findings=%d queries=%d %.1fs %s\n", r.Spec.Fn, r.Args, r.Paths, len(r.Findings), r.Queries, r.WallS, r.Err)
				}
			}
		}()
	}
	for i := range jobs {
		ch <- i
	}
	close(ch)
	wg.Wait()
	return results
}

func main() {
	if len(os.Args) < 2 {
		fatal(2, "usage: gosym check <prop> <quick|thorough> | run <pkg> <fn> <args> | replay <file>")
	}
	if v := os.Getenv("VERIF_DIR"); v != "" {
		verifDir = v
	}
	if v := os.Getenv("VERIF_REPO"); v != "" {
		repoDir = v
	}
	switch os.Args[1] {
	case "check":
		if len(os.Args) < 4 {
			fatal(2, "usage: gosym check <prop> <quick|thorough>")
		}
		os.Exit(cmdCheck(os.Args[2], os.Args[3]))
	case "run":
		os.Exit(cmdRun(os.Args[2:]))
	case "replay":
		os.Exit(cmdReplay(os.Args[2]))
	default:
		fatal(2, "unknown command %s", os.Args[1])
	}
}

// cmdRun: ad-hoc development run of one root: gosym run <pkg> <fn> [a,b,c] [unwind]
func cmdRun(a []string) int {
	ix := loadIndex()
	spec := &RootSpec{Pkg: a[0], Fn: a[1]}
	var args []int
	if len(a) > 2 && a[2] != "" {
		for _, x := range strings.Split(a[2], ",") {
			var n int
			fmt.Sscan(x, &n)
			args = append(args, n)
		}
	}
	if len(a) > 3 {
		fmt.Sscan(a[3], &spec.Unwind)
	}
	if len(a) > 4 && a[4] != "" {
		spec.Summarize = strings.Split(a[4], ",")
	}
	if len(a) > 5 {
		spec.SkipGo = strings.Split(a[5], ",")
	}
	for _, ps := range ix.Properties {
		for i := range ps.Roots {
			r := &ps.Roots[i]
			if r.Fn == spec.Fn && r.Pkg == spec.Pkg {
				if spec.Unwind == 0 {
					spec.Unwind = r.Unwind
				}
				if spec.Summarize == nil {
					spec.Summarize = r.Summarize
				}
				if spec.SkipGo == nil {
					spec.SkipGo = r.SkipGo
				}
				spec.Replace = r.Replace
				spec.PreemptLock = r.PreemptLock
				spec.PreemptSelect = r.PreemptSelect
				spec.TimersOff = r.TimersOff
				spec.TimersWait = r.TimersWait
				spec.TickerFires = r.TickerFires
				spec.PreemptBound = r.PreemptBound
				spec.PreemptAt = r.PreemptAt
			}
		}
	}
	l := load(ix, []string{spec.Pkg})
	fmt.Printf("loaded in %v\n", l.dur)
	r := runRoot(l, spec, args, 2)
	printRoot(r)
	return 0
}

func printRoot(r *RootResult) {
	fmt.Printf("root %s%v: paths=%d done=%d forks=%d instrs=%d merged=%d asserts=%d queries=%d (sat %d unsat %d unknown %d) solver=%.2fs wall=%.2fs err=%q\n",
		r.Spec.Fn, r.Args, r.Paths, r.Done, r.Forks, r.Instrs, r.Merged, r.Asserts, r.Queries, r.Sat, r.Unsat, r.Unknown, r.SolverS, r.WallS, r.Err)
	fmt.Printf("  reached: %v\n", r.Reached)
	for _, f := range r.Findings {
		fmt.Printf("  FINDING %s %s ×%d known=%v model=%v yields=%v\n", f.Kind, f.ID, f.Paths, f.Known, fmtModel(f.Model), f.Yields)
	}
	for _, s := range r.Samples {
		fmt.Printf("  sample: %v obs=%v reached=%v\n", fmtModel(s.Model), s.Obs, s.Reached)
	}
	if os.Getenv("VERIF_VERBOSE") != "" {
		var fs []string
		for k, v := range r.Funcs {
			fs = append(fs, fmt.Sprintf("%s×%d", k, v))
		}
		sort.Strings(fs)
		fmt.Println("  functions:", strings.Join(fs, " "))
		fmt.Println("  stubs:", r.Stubs)
		fmt.Println("  lazy inits:", r.Lazy)
	}
}

func fmtModel(m []NdVal) string {
	var parts []string
	for _, v := range m {
		parts = append(parts, fmt.Sprintf("%s=%d", v.Name, v.Val))
	}
	s := strings.Join(parts, " ")
	if len(s) > 600 {
		s = s[:600] + "…"
	}
	return s
}
