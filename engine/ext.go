package main

import (
	"go/token"
	"fmt"
	"go/types"

	"golang.org/x/tools/go/ssa"
)

// ---------------------------------------------------------------- maps (association lists)

type mapEntry struct{ k, v Value }
type MapV struct{ e []mapEntry }
type ChanV struct {
	buf    []Value
	cap    int
	closed bool
	timer  bool // channel of a time.Timer / time.After: "ready" means "may fire now", not "must"
	unbuf  bool // made with capacity 0 (modelled with one slot, see MakeChan)
	commit int  // 1 + index of the goroutine that was parked on a receive when the value in the slot was sent: it takes it
}

// keyEq builds the equality term for two map keys (scalars or strings).
func (m *Machine) keyEq(a, b Value) *Term {
	c := m.ctx
	switch x := a.(type) {
	case Sc:
		return c.Cmp("=", x.t, sc(b))
	case StrV:
		y := b.(StrV)
		if len(x.b) != len(y.b) {
			return c.Bool(false)
		}
		r := c.Bool(true)
		for i := range x.b {
			r = c.And(r, c.Cmp("=", x.b[i], y.b[i]))
		}
		return r
	case StructV:
		y := b.(StructV)
		r := c.Bool(true)
		for i := range x.f {
			r = c.And(r, m.keyEq(x.f[i], y.f[i]))
		}
		return r
	case Ptr:
		y := b.(Ptr)
		return c.Bool(x.obj == y.obj && fmt.Sprint(x.path) == fmt.Sprint(y.path))
	}
	panic(fmt.Sprintf("map key type %T unsupported", a))
}

// mapFind forks s over "key equals entry i" for each i and "absent". cont is called on each
// resulting state with the index (or -1).
func (m *Machine) mapFind(s *State, mp Ptr, key Value, cont func(st *State, mv MapV, idx int)) []*State {
	c := m.ctx
	if mp.obj == 0 {
		cont(s, MapV{}, -1)
		return nil
	}
	mv := s.load(mp).(MapV)
	var out []*State
	none := c.Bool(true)
	rest := s
	for i := range mv.e {
		eq := m.keyEq(mv.e[i].k, key)
		cond := c.And(none, eq)
		if cond.konst && cond.cv == 0 {
			continue
		}
		if cond.konst && cond.cv == 1 {
			cont(rest, mv, i)
			out = append(out, rest)
			rest = nil
			break
		}
		if rest.feasible(cond) {
			st := rest.clone()
			m.stats.forks++
			st.pc = append(st.pc, cond)
			cont(st, mv, i)
			out = append(out, st)
		}
		none = c.And(none, c.Not(eq))
	}
	if rest != nil {
		if none.konst || rest.feasible(none) {
			if !none.konst {
				rest.pc = append(rest.pc, none)
			}
			if !(none.konst && none.cv == 0) {
				cont(rest, mv, -1)
				out = append(out, rest)
			}
		} else {
			rest.fail("infeasible", "")
		}
	}
	if len(out) == 1 && out[0] == s {
		return nil
	}
	if len(out) == 0 {
		s.fail("infeasible", "")
		return nil
	}
	return out
}

func (m *Machine) execMapOps(s *State, f *Frame, in ssa.Instruction) ([]*State, bool) {
	switch x := in.(type) {
	case *ssa.MakeMap:
		id := s.alloc(MapV{})
		f.env[x] = Ptr{obj: id}
		return nil, true
	case *ssa.MakeChan:
		sz := sc(s.get(x.Size))
		cp := int(sz.cv)
		if cp == 0 {
			// unbuffered channels are modelled with one slot: the sender does not wait for the hand-off
			m.stubs["unbuffered channel modelled as 1-buffered (rendezvous not modelled)"]++
			cp = 1
		}
		id := s.alloc(ChanV{cap: cp, unbuf: sz.cv == 0})
		f.env[x] = Ptr{obj: id}
		return nil, true
	case *ssa.MapUpdate:
		mp := s.get(x.Map).(Ptr)
		if mp.obj == 0 {
			m.panicState(s, "assignment to nil map", f, in)
			return nil, true
		}
		key, val := s.get(x.Key), s.get(x.Value)
		return m.mapFind(s, mp, key, func(st *State, mv MapV, idx int) {
			ne := append([]mapEntry(nil), mv.e...)
			if idx >= 0 {
				ne[idx] = mapEntry{ne[idx].k, val}
			} else {
				ne = append(ne, mapEntry{key, val})
			}
			st.store(mp, MapV{ne})
		}), true
	case *ssa.Lookup:
		base := s.get(x.X)
		if _, isStr := base.(StrV); isStr {
			return nil, false
		}
		mp := base.(Ptr)
		key := s.get(x.Index)
		et := x.X.Type().Underlying().(*types.Map).Elem()
		return m.mapFind(s, mp, key, func(st *State, mv MapV, idx int) {
			var v Value
			if idx >= 0 {
				v = mv.e[idx].v
			} else {
				v = m.zero(et)
			}
			if x.CommaOk {
				st.top().env[x] = TupleV{[]Value{v, Sc{m.ctx.Bool(idx >= 0)}}}
			} else {
				st.top().env[x] = v
			}
		}), true
	}
	return nil, false
}

func (m *Machine) mapDelete(s *State, mp Ptr, key Value) []*State {
	if mp.obj == 0 {
		return nil
	}
	return m.mapFind(s, mp, key, func(st *State, mv MapV, idx int) {
		if idx >= 0 {
			ne := append(append([]mapEntry(nil), mv.e[:idx]...), mv.e[idx+1:]...)
			st.store(mp, MapV{ne})
		}
	})
}

// ---------------------------------------------------------------- atomics & sync intrinsics

func (m *Machine) syncIntrinsic(s *State, f *Frame, x ssa.Value, name string, args []Value) bool {
	c := m.ctx
	cell := func(p Ptr, field int) Ptr {
		return Ptr{obj: p.obj, path: append(append([]int(nil), p.path...), field)}
	}
	set := func(v Value) {
		if x != nil {
			f.env[x] = v
		}
	}
	switch name {
	case "(*sync/atomic.Int64).Store":
		s.store(cell(args[0].(Ptr), 2), args[1])
		return true
	case "(*sync/atomic.Int64).Load":
		set(s.load(cell(args[0].(Ptr), 2)))
		return true
	case "(*sync/atomic.Int64).Add":
		p := cell(args[0].(Ptr), 2)
		nv := Sc{c.BvBin("bvadd", sc(s.load(p)), sc(args[1]))}
		s.store(p, nv)
		set(nv)
		return true
	case "(*sync/atomic.Int64).CompareAndSwap":
		p := cell(args[0].(Ptr), 2)
		cur := sc(s.load(p))
		eq := c.Cmp("=", cur, sc(args[1]))
		s.store(p, Sc{c.Ite(eq, sc(args[2]), cur)})
		set(Sc{eq})
		return true
	case "(*sync/atomic.Int64).Swap":
		p := cell(args[0].(Ptr), 2)
		set(s.load(p))
		s.store(p, args[1])
		return true
	case "(*sync/atomic.Int32).Store", "(*sync/atomic.Uint32).Store":
		s.store(cell(args[0].(Ptr), 1), args[1])
		return true
	case "(*sync/atomic.Int32).Load", "(*sync/atomic.Uint32).Load":
		set(s.load(cell(args[0].(Ptr), 1)))
		return true
	case "(*sync/atomic.Int32).Add", "(*sync/atomic.Uint32).Add":
		p := cell(args[0].(Ptr), 1)
		nv := Sc{c.BvBin("bvadd", sc(s.load(p)), sc(args[1]))}
		s.store(p, nv)
		set(nv)
		return true
	case "(*sync/atomic.Int32).CompareAndSwap":
		p := cell(args[0].(Ptr), 1)
		cur := sc(s.load(p))
		eq := c.Cmp("=", cur, sc(args[1]))
		s.store(p, Sc{c.Ite(eq, sc(args[2]), cur)})
		set(Sc{eq})
		return true
	case "(*sync/atomic.Bool).Store":
		b := sc(args[1])
		s.store(cell(args[0].(Ptr), 1), Sc{c.Ite(b, c.BV(1, 32), c.BV(0, 32))})
		return true
	case "(*sync/atomic.Bool).Load":
		v := sc(s.load(cell(args[0].(Ptr), 1)))
		set(Sc{c.Not(c.Cmp("=", v, c.BV(0, 32)))})
		return true
	case "(*sync/atomic.Bool).CompareAndSwap":
		p := cell(args[0].(Ptr), 1)
		cur := sc(s.load(p))
		old := c.Ite(sc(args[1]), c.BV(1, 32), c.BV(0, 32))
		nw := c.Ite(sc(args[2]), c.BV(1, 32), c.BV(0, 32))
		eq := c.Cmp("=", cur, old)
		s.store(p, Sc{c.Ite(eq, nw, cur)})
		set(Sc{eq})
		return true
	case "math/bits.OnesCount16":
		v := sc(args[0])
		acc := c.BV(0, 64)
		for i := 0; i < 16; i++ {
			acc = c.BvBin("bvadd", acc, c.ZeroExt(c.Extract(i, i, v), 64))
		}
		set(Sc{acc})
		return true
	}
	return false
}

// ---------------------------------------------------------------- channels (single goroutine semantics: block = path ends "blocked")

func (m *Machine) chanSend(s *State, f *Frame, in ssa.Instruction, p Ptr, v Value) bool {
	if p.obj == 0 {
		s.fail("blocked", "send on nil channel")
		return false
	}
	ch := s.load(p).(ChanV)
	if ch.closed {
		m.panicState(s, "send on closed channel", f, in)
		return false
	}
	if len(ch.buf) >= ch.cap {
		s.fail("blocked", "send on full channel")
		return false
	}
	ch.buf = append(append([]Value(nil), ch.buf...), v)
	if ch.unbuf {
		// a receiver parked on this channel is committed to this value (Go hands it over directly)
		ch.commit = m.parkedReceiver(s, p) + 1
	}
	s.store(p, ch)
	return true
}

// parkedReceiver returns the index of a goroutine (other than the current one) that is blocked on a receive from
// channel p — a plain receive or a blocking select with a receive case on p — or -1.
func (m *Machine) parkedReceiver(s *State, p Ptr) int {
	for i := range s.gs {
		if i == s.cur || s.gs[i].done {
			continue
		}
		in, f := s.nextInstr(i)
		if in == nil {
			continue
		}
		switch x := in.(type) {
		case *ssa.UnOp:
			if x.Op == token.ARROW {
				if q, ok := s.evalIn(f, x.X).(Ptr); ok && q.obj == p.obj {
					return i
				}
			}
		case *ssa.Select:
			if !x.Blocking {
				continue
			}
			for _, st := range x.States {
				if st.Dir == types.SendOnly {
					continue
				}
				if q, ok := s.evalIn(f, st.Chan).(Ptr); ok && q.obj == p.obj {
					return i
				}
			}
		}
	}
	return -1
}

func (m *Machine) chanRecv(s *State, p Ptr, et types.Type) (Value, bool, bool) { // value, ok, ready
	if p.obj == 0 {
		return nil, false, false
	}
	ch := s.load(p).(ChanV)
	if len(ch.buf) > 0 {
		v := ch.buf[0]
		ch.buf = append([]Value(nil), ch.buf[1:]...)
		ch.commit = 0
		s.store(p, ch)
		return v, true, true
	}
	if ch.closed {
		return m.zero(et), false, true
	}
	return nil, false, false
}

func (m *Machine) execSelect(s *State, f *Frame, x *ssa.Select) []*State {
	c := m.ctx
	if m.preemptSelect && !x.Blocking && len(s.gs) > 1 && !s.gs[s.cur].daemon && m.preemptHere(f) {
		// root option preempt_at_select: a preemption point right before a non-blocking select (context-bounded),
		// so that another goroutine can act between two polls of a channel
		g := s.gs[s.cur]
		if !g.lockYield && s.preemptions < m.preemptBound {
			g.lockYield = true
			f.idx--
			s.atPreempt = true
			succ := m.schedule(s, true)
			s.atPreempt = false
			if succ == nil && s.status == "" {
				return []*State{s}
			}
			return succ
		}
		g.lockYield = false
	}
	var ready []int
	committed := -1
	for i, st := range x.States {
		p := s.get(st.Chan).(Ptr)
		if p.obj == 0 {
			continue
		}
		ch := s.load(p).(ChanV)
		if st.Dir == types.SendOnly {
			if ch.closed || len(ch.buf) < ch.cap {
				// a NON-blocking send (select with default) on an unbuffered channel succeeds only when a
				// receiver is parked on it; a blocking one may run ahead by one slot (MakeChan)
				if ch.unbuf && !x.Blocking && !ch.closed && m.parkedReceiver(s, p) < 0 {
					continue
				}
				ready = append(ready, i)
			}
		} else if len(ch.buf) > 0 || ch.closed {
			if ch.unbuf && ch.commit == s.cur+1 && len(ch.buf) > 0 {
				// this goroutine was parked here when the value was sent: the hand-off has already happened
				committed = i
			}
			ready = append(ready, i)
		}
	}
	if committed >= 0 {
		ready = []int{committed}
	}
	build := func(st *State, chosen int) {
		fr := st.top()
		vals := []Value{Sc{c.BV(uint64(int64(chosen)), 64)}, Sc{c.Bool(false)}}
		for i, ss := range x.States {
			if ss.Dir == types.SendOnly {
				continue
			}
			et := ss.Chan.Type().Underlying().(*types.Chan).Elem()
			if i == chosen {
				v, ok, _ := m.chanRecv(st, st.get(ss.Chan).(Ptr), et)
				vals[1] = Sc{c.Bool(ok)}
				vals = append(vals, v)
			} else {
				vals = append(vals, m.zero(et))
			}
		}
		if chosen >= 0 && x.States[chosen].Dir == types.SendOnly {
			m.chanSend(st, fr, x, st.get(x.States[chosen].Chan).(Ptr), st.get(x.States[chosen].Send))
		}
		fr.env[x] = TupleV{vals}
	}
	if len(ready) == 0 {
		if x.Blocking {
			return m.block(s, f)
		}
		build(s, -1)
		return nil
	}
	if m.timersWait && x.Blocking && !s.timerYielded {
		// every ready case is a timer that MAY fire now: it may as well fire later, after the other
		// goroutines that can run have run (root option timers_may_wait)
		onlyTimers := true
		for _, r := range ready {
			if ch, ok := s.load(s.get(x.States[r].Chan).(Ptr)).(ChanV); !ok || !ch.timer {
				onlyTimers = false
			}
		}
		others := false
		for i := range s.gs {
			if i != s.cur && m.ready(s, i) {
				others = true
			}
		}
		if onlyTimers && others {
			later := s.clone()
			m.stats.forks++
			m.stubs["sched-fork:timer-fires-later"]++
			later.timerYielded = true
			lf := later.top()
			lf.idx--
			var out []*State
			if succ := m.schedule(later, false); succ != nil {
				out = append(out, succ...)
			} else if later.status == "" {
				out = append(out, later)
			}
			// s: the timer fires now
			if len(ready) == 1 {
				build(s, ready[0])
				return append(out, s)
			}
			for k, r := range ready {
				st := s
				if k < len(ready)-1 {
					st = s.clone()
					m.stats.forks++
				}
				build(st, r)
				out = append(out, st)
			}
			return out
		}
	}
	s.timerYielded = false
	if len(ready) == 1 {
		build(s, ready[0])
		return nil
	}
	var out []*State
	for k, r := range ready {
		st := s
		if k < len(ready)-1 {
			st = s.clone()
			m.stats.forks++
		}
		build(st, r)
		out = append(out, st)
	}
	return out
}

var ignoredPkgPrefixes = []string{"log/slog", "github.com/oxia-db/oxia/common/metric", "go.opentelemetry.io", "github.com/prometheus", "github.com/dustin/go-humanize"}

func ignoredPkg(p *types.Package) bool {
	if p == nil {
		return false
	}
	for _, ip := range ignoredPkgPrefixes {
		if p.Path() == ip || len(p.Path()) > len(ip) && p.Path()[:len(ip)+1] == ip+"/" {
			return true
		}
	}
	return false
}

func typePkg(t types.Type) *types.Package {
	switch x := t.(type) {
	case *types.Named:
		return x.Obj().Pkg()
	case *types.Pointer:
		return typePkg(x.Elem())
	case *types.Alias:
		return typePkg(types.Unalias(x))
	}
	return nil
}

// ---------------------------------------------------------------- map iteration (insertion order in the spike)

type BoxV struct {
	v   Value
	typ string // message type that was marshalled ("" = not a protobuf message)
}

type IterV struct {
	e   []mapEntry
	pos int
}

func (m *Machine) execRange(s *State, f *Frame, x *ssa.Range) {
	mp, ok := s.get(x.X).(Ptr)
	if !ok {
		s.fail("unsupported", "range over non-map")
		return
	}
	var e []mapEntry
	if mp.obj != 0 {
		e = s.load(mp).(MapV).e
	}
	id := s.alloc(IterV{e: e})
	f.env[x] = Ptr{obj: id}
}

func (m *Machine) execNext(s *State, f *Frame, x *ssa.Next) {
	p := s.get(x.Iter).(Ptr)
	it := s.load(p).(IterV)
	tt := x.Type().(*types.Tuple)
	if it.pos >= len(it.e) {
		f.env[x] = TupleV{[]Value{Sc{m.ctx.Bool(false)}, m.zero(tt.At(1).Type()), m.zero(tt.At(2).Type())}}
		return
	}
	e := it.e[it.pos]
	it.pos++
	s.store(p, it)
	f.env[x] = TupleV{[]Value{Sc{m.ctx.Bool(true)}, e.k, e.v}}
}
