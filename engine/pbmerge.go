package main

import (
	"unicode/utf8"
	"fmt"
	"go/types"
)

// Protobuf semantics of the typed-box model.
//
//   proto.Unmarshal(b, m)  = reset m, then merge the decoded message into it
//   m.UnmarshalVT(b)       = merge the decoded message into m WITHOUT resetting it (vtprotobuf): fields
//                            present on the wire overwrite scalars, append to repeated fields, merge into
//                            an existing sub-message — also when it sits in a oneof wrapper of the same kind
//   m.ResetVT()/ReturnToVTPool() = m becomes the zero message
//
// "present on the wire" in proto3 = not the default value (optional fields: non-nil pointer).

func isZeroScalar(v Value) (known, zero bool) {
	switch x := v.(type) {
	case Sc:
		if x.t.konst {
			return true, x.t.cv == 0
		}
		return false, false
	case StrV:
		return true, len(x.b) == 0 && x.box == nil
	case FloatV:
		return true, x.f == 0
	}
	return false, false
}

func (m *Machine) pbMergeStruct(s *State, t types.Type, old, nw StructV) StructV {
	st, ok := t.Underlying().(*types.Struct)
	if !ok || len(old.f) != st.NumFields() || len(nw.f) != st.NumFields() {
		return nw
	}
	out := StructV{f: make([]Value, len(old.f))}
	for i := 0; i < st.NumFields(); i++ {
		fld := st.Field(i)
		if !fld.Exported() {
			out.f[i] = old.f[i]
			continue
		}
		out.f[i] = m.pbMergeField(s, fld.Type(), old.f[i], nw.f[i])
	}
	return out
}

func (m *Machine) pbMergeField(s *State, ft types.Type, old, nw Value) Value {
	c := m.ctx
	switch u := ft.Underlying().(type) {
	case *types.Slice:
		ns, ok := nw.(SliceV)
		if !ok || ns.obj == 0 || ns.len == 0 {
			return old
		}
		if b, isB := u.Elem().Underlying().(*types.Basic); isB && b.Kind() == types.Uint8 {
			return nw // bytes: overwritten
		}
		os, ok := old.(SliceV)
		if !ok || os.obj == 0 || os.len == 0 {
			return nw
		}
		m.stubs["UnmarshalVT into a non-empty message: repeated field appended (merge semantics)"]++
		var src []Value
		for i := 0; i < ns.len; i++ {
			src = append(src, m.sliceElem(s, ns, i))
		}
		// always a fresh backing array: the decoded elements are new objects
		tmp := SliceV{obj: os.obj, path: os.path, off: os.off, len: os.len, cap: os.len}
		return m.doAppend(s, ft, tmp, src)
	case *types.Pointer:
		np, ok := nw.(Ptr)
		if !ok || np.obj == 0 {
			return old
		}
		op, ok := old.(Ptr)
		if !ok || op.obj == 0 {
			return nw
		}
		if _, isStruct := u.Elem().Underlying().(*types.Struct); isStruct {
			ov, ok1 := s.load(op).(StructV)
			nv, ok2 := s.load(np).(StructV)
			if ok1 && ok2 {
				s.store(op, m.pbMergeStruct(s, u.Elem(), ov, nv))
				return op
			}
		}
		return nw
	case *types.Interface:
		ni, ok := nw.(IfaceV)
		if !ok || ni.typ == nil {
			return old
		}
		oi, ok := old.(IfaceV)
		if !ok || oi.typ == nil || !types.Identical(oi.typ, ni.typ) {
			return nw
		}
		// same oneof wrapper: a message-typed member is merged into the existing one
		pt, ok := ni.typ.(*types.Pointer)
		if !ok {
			return nw
		}
		wst, ok := pt.Elem().Underlying().(*types.Struct)
		if !ok || wst.NumFields() != 1 {
			return nw
		}
		inner, ok := wst.Field(0).Type().Underlying().(*types.Pointer)
		if !ok {
			return nw
		}
		if _, isMsg := inner.Elem().Underlying().(*types.Struct); !isMsg {
			return nw
		}
		op, ok1 := oi.v.(Ptr)
		np, ok2 := ni.v.(Ptr)
		if !ok1 || !ok2 || op.obj == 0 || np.obj == 0 {
			return nw
		}
		ow, ok1 := s.load(op).(StructV)
		nwv, ok2 := s.load(np).(StructV)
		if !ok1 || !ok2 {
			return nw
		}
		s.store(op, StructV{f: []Value{m.pbMergeField(s, wst.Field(0).Type(), ow.f[0], nwv.f[0])}})
		return old
	case *types.Map:
		np, ok := nw.(Ptr)
		if !ok || np.obj == 0 {
			return old
		}
		return nw
	case *types.Basic:
		if known, zero := isZeroScalar(nw); known {
			if zero {
				return old
			}
			return nw
		}
		if known, zero := isZeroScalar(old); known && zero {
			return nw
		}
		// symbolic scalar over a non-zero old value: overwritten iff non-default
		if ns, ok := nw.(Sc); ok {
			if os, ok := old.(Sc); ok && ns.t.w == os.t.w && ns.t.w > 0 {
				return Sc{c.Ite(c.Cmp("=", ns.t, c.BV(0, ns.t.w)), os.t, ns.t)}
			}
		}
		return nw
	}
	return nw
}

// deepEqual models reflect.DeepEqual on engine values: structure is concrete, scalars may be symbolic.
func (m *Machine) deepEqual(s *State, a, b Value, depth int) *Term {
	c := m.ctx
	if depth > 40 {
		return c.Bool(true) // cyclic structures: assume equal below this depth (not expected in configs)
	}
	switch x := a.(type) {
	case Sc:
		y, ok := b.(Sc)
		if !ok || x.t.w != y.t.w {
			return c.Bool(false)
		}
		return c.Cmp("=", x.t, y.t)
	case StrV:
		y, ok := b.(StrV)
		if !ok || len(x.b) != len(y.b) || (x.box == nil) != (y.box == nil) {
			return c.Bool(false)
		}
		r := c.Bool(true)
		for i := range x.b {
			r = c.And(r, c.Cmp("=", x.b[i], y.b[i]))
		}
		return r
	case FloatV:
		y, ok := b.(FloatV)
		return c.Bool(ok && x.f == y.f)
	case Ptr:
		y, ok := b.(Ptr)
		if !ok {
			return c.Bool(false)
		}
		if x.obj == 0 || y.obj == 0 {
			return c.Bool(x.obj == y.obj)
		}
		if x.obj == y.obj && fmt.Sprint(x.path) == fmt.Sprint(y.path) {
			return c.Bool(true)
		}
		return m.deepEqual(s, s.load(x), s.load(y), depth+1)
	case SliceV:
		y, ok := b.(SliceV)
		if !ok || (x.obj == 0) != (y.obj == 0) || x.len != y.len {
			return c.Bool(false)
		}
		r := c.Bool(true)
		for i := 0; i < x.len; i++ {
			r = c.And(r, m.deepEqual(s, m.sliceElem(s, x, i), m.sliceElem(s, y, i), depth+1))
		}
		return r
	case StructV:
		y, ok := b.(StructV)
		if !ok || len(x.f) != len(y.f) {
			return c.Bool(false)
		}
		r := c.Bool(true)
		for i := range x.f {
			r = c.And(r, m.deepEqual(s, x.f[i], y.f[i], depth+1))
		}
		return r
	case ArrayV:
		y, ok := b.(ArrayV)
		if !ok || x.n != y.n {
			return c.Bool(false)
		}
		r := c.Bool(true)
		for i := 0; i < x.n; i++ {
			r = c.And(r, m.deepEqual(s, x.get(i), y.get(i), depth+1))
		}
		return r
	case IfaceV:
		y, ok := b.(IfaceV)
		if !ok || (x.typ == nil) != (y.typ == nil) {
			return c.Bool(false)
		}
		if x.typ == nil {
			return c.Bool(true)
		}
		if !types.Identical(x.typ, y.typ) {
			return c.Bool(false)
		}
		return m.deepEqual(s, x.v, y.v, depth+1)
	case MapV:
		y, ok := b.(MapV)
		if !ok || len(x.e) != len(y.e) {
			return c.Bool(false)
		}
		r := c.Bool(true)
		for _, ex := range x.e {
			found := c.Bool(false)
			for _, ey := range y.e {
				found = c.Or(found, c.And(m.keyEq(ex.k, ey.k), m.deepEqual(s, ex.v, ey.v, depth+1)))
			}
			r = c.And(r, found)
		}
		return r
	case FuncV:
		y, ok := b.(FuncV)
		return c.Bool(ok && x.fn == nil && y.fn == nil)
	case nil:
		return c.Bool(b == nil)
	}
	return c.Bool(false)
}

// pbInvalidUTF8 reports whether a message value holds a CONCRETE string (field, repeated element, map key or
// value, also inside sub-messages and oneof wrappers) that is not valid UTF-8. The standard protobuf-go codec
// (proto.Marshal / proto.Unmarshal / MarshalOptions.Marshal) refuses proto3 string fields with invalid UTF-8;
// the vtprotobuf codec used by the gRPC layer and the WAL does not check. Strings with symbolic bytes are taken
// to be valid (stated as a stub).
func (m *Machine) pbInvalidUTF8(s *State, t types.Type, v Value, depth int) bool {
	if depth > 32 || v == nil {
		return false
	}
	switch u := t.Underlying().(type) {
	case *types.Basic:
		if u.Kind() != types.String {
			return false
		}
		sv, ok := v.(StrV)
		if !ok || sv.box != nil {
			return false
		}
		bs := make([]byte, 0, len(sv.b))
		for _, bt := range sv.b {
			if !bt.konst {
				m.stubs["std protobuf codec: strings with symbolic bytes assumed valid UTF-8"]++
				return false
			}
			bs = append(bs, byte(bt.cv))
		}
		return !utf8.Valid(bs)
	case *types.Pointer:
		p, ok := v.(Ptr)
		if !ok || p.obj == 0 {
			return false
		}
		return m.pbInvalidUTF8(s, u.Elem(), s.load(p), depth+1)
	case *types.Struct:
		sv, ok := v.(StructV)
		if !ok || len(sv.f) != u.NumFields() {
			return false
		}
		for i := 0; i < u.NumFields(); i++ {
			if !u.Field(i).Exported() {
				continue
			}
			if m.pbInvalidUTF8(s, u.Field(i).Type(), sv.f[i], depth+1) {
				return true
			}
		}
	case *types.Slice:
		sl, ok := v.(SliceV)
		if !ok || sl.obj == 0 {
			return false
		}
		if b, isB := u.Elem().Underlying().(*types.Basic); isB && b.Kind() == types.Uint8 {
			return false // bytes fields are not checked
		}
		for i := 0; i < sl.len; i++ {
			if m.pbInvalidUTF8(s, u.Elem(), m.sliceElem(s, sl, i), depth+1) {
				return true
			}
		}
	case *types.Map:
		p, ok := v.(Ptr)
		if !ok || p.obj == 0 {
			return false
		}
		mv, ok := s.load(p).(MapV)
		if !ok {
			return false
		}
		for _, e := range mv.e {
			if m.pbInvalidUTF8(s, u.Key(), e.k, depth+1) || m.pbInvalidUTF8(s, u.Elem(), e.v, depth+1) {
				return true
			}
		}
	case *types.Interface:
		// oneof wrapper
		iv, ok := v.(IfaceV)
		if !ok || iv.typ == nil || iv.v == nil {
			return false
		}
		return m.pbInvalidUTF8(s, iv.typ, iv.v, depth+1)
	}
	return false
}
