package main

import (
	"go/types"
)

// Protobuf semantics of the typed-box model.
//
//   proto.Unmarshal(b, m)  = reset m, then merge the decoded message into it
//   m.UnmarshalVT(b)       = merge the decoded message into m WITHOUT resetting it (vtprotobuf): fields
//                            present on the wire overwrite scalars, append to repeated fields, merge into
//                            an existing sub-message — also when it sits in a oneof wrapper of the same kind
//   m.ResetVT()/ReturnToVTPool() = m becomes the zero message
//
// "present on the wire" in proto3 = not the default value (optional fields: non-nil pointer).

func isZeroScalar(v Value) (known, zero bool) {
	switch x := v.(type) {
	case Sc:
		if x.t.konst {
			return true, x.t.cv == 0
		}
		return false, false
	case StrV:
		return true, len(x.b) == 0 && x.box == nil
	case FloatV:
		return true, x.f == 0
	}
	return false, false
}

func (m *Machine) pbMergeStruct(s *State, t types.Type, old, nw StructV) StructV {
	st, ok := t.Underlying().(*types.Struct)
	if !ok || len(old.f) != st.NumFields() || len(nw.f) != st.NumFields() {
		return nw
	}
	out := StructV{f: make([]Value, len(old.f))}
	for i := 0; i < st.NumFields(); i++ {
		fld := st.Field(i)
		if !fld.Exported() {
			out.f[i] = old.f[i]
			continue
		}
		out.f[i] = m.pbMergeField(s, fld.Type(), old.f[i], nw.f[i])
	}
	return out
}

func (m *Machine) pbMergeField(s *State, ft types.Type, old, nw Value) Value {
	c := m.ctx
	switch u := ft.Underlying().(type) {
	case *types.Slice:
		ns, ok := nw.(SliceV)
		if !ok || ns.obj == 0 || ns.len == 0 {
			return old
		}
		if b, isB := u.Elem().Underlying().(*types.Basic); isB && b.Kind() == types.Uint8 {
			return nw // bytes: overwritten
		}
		os, ok := old.(SliceV)
		if !ok || os.obj == 0 || os.len == 0 {
			return nw
		}
		m.stubs["UnmarshalVT into a non-empty message: repeated field appended (merge semantics)"]++
		var src []Value
		for i := 0; i < ns.len; i++ {
			src = append(src, m.sliceElem(s, ns, i))
		}
		// always a fresh backing array: the decoded elements are new objects
		tmp := SliceV{obj: os.obj, path: os.path, off: os.off, len: os.len, cap: os.len}
		return m.doAppend(s, ft, tmp, src)
	case *types.Pointer:
		np, ok := nw.(Ptr)
		if !ok || np.obj == 0 {
			return old
		}
		op, ok := old.(Ptr)
		if !ok || op.obj == 0 {
			return nw
		}
		if _, isStruct := u.Elem().Underlying().(*types.Struct); isStruct {
			ov, ok1 := s.load(op).(StructV)
			nv, ok2 := s.load(np).(StructV)
			if ok1 && ok2 {
				s.store(op, m.pbMergeStruct(s, u.Elem(), ov, nv))
				return op
			}
		}
		return nw
	case *types.Interface:
		ni, ok := nw.(IfaceV)
		if !ok || ni.typ == nil {
			return old
		}
		oi, ok := old.(IfaceV)
		if !ok || oi.typ == nil || !types.Identical(oi.typ, ni.typ) {
			return nw
		}
		// same oneof wrapper: a message-typed member is merged into the existing one
		pt, ok := ni.typ.(*types.Pointer)
		if !ok {
			return nw
		}
		wst, ok := pt.Elem().Underlying().(*types.Struct)
		if !ok || wst.NumFields() != 1 {
			return nw
		}
		inner, ok := wst.Field(0).Type().Underlying().(*types.Pointer)
		if !ok {
			return nw
		}
		if _, isMsg := inner.Elem().Underlying().(*types.Struct); !isMsg {
			return nw
		}
		op, ok1 := oi.v.(Ptr)
		np, ok2 := ni.v.(Ptr)
		if !ok1 || !ok2 || op.obj == 0 || np.obj == 0 {
			return nw
		}
		ow, ok1 := s.load(op).(StructV)
		nwv, ok2 := s.load(np).(StructV)
		if !ok1 || !ok2 {
			return nw
		}
		s.store(op, StructV{f: []Value{m.pbMergeField(s, wst.Field(0).Type(), ow.f[0], nwv.f[0])}})
		return old
	case *types.Map:
		np, ok := nw.(Ptr)
		if !ok || np.obj == 0 {
			return old
		}
		return nw
	case *types.Basic:
		if known, zero := isZeroScalar(nw); known {
			if zero {
				return old
			}
			return nw
		}
		if known, zero := isZeroScalar(old); known && zero {
			return nw
		}
		// symbolic scalar over a non-zero old value: overwritten iff non-default
		if ns, ok := nw.(Sc); ok {
			if os, ok := old.(Sc); ok && ns.t.w == os.t.w && ns.t.w > 0 {
				return Sc{c.Ite(c.Cmp("=", ns.t, c.BV(0, ns.t.w)), os.t, ns.t)}
			}
		}
		return nw
	}
	return nw
}
