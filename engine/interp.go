package main

import (
	"os"
	"fmt"
	"go/constant"
	"go/token"
	"go/types"
	"sort"
	"strings"

	"golang.org/x/tools/go/ssa"
)

// ---------------------------------------------------------------- values

type Value interface{}

type Sc struct { // scalar: int (w>0) or bool (w==0)
	t *Term
}
type Ptr struct { // obj==0: nil
	obj  int
	path []int
}
type SliceV struct { // obj==0: nil slice
	obj           int
	path          []int
	off, len, cap int
}
type StructV struct{ f []Value }
type ArrayV struct {
	n     int
	elems map[int]Value
	def   Value
}
type TupleV struct{ v []Value }
type IfaceV struct { // typ==nil: nil interface
	typ types.Type
	v   Value
}
type FuncV struct {
	fn   *ssa.Function
	free []Value
	noop bool
}
type StrV struct {
	b   []*Term
	box Value // non-nil: opaque content (e.g. NumStr), b is empty
}
type ErrV struct { // model of error values
	id    int // sentinel id
	msg   string
	cause *ErrV
}
type Opaque struct{ what string }

// FloatV is a CONCRETE floating point value (symbolic floats stay Opaque).
type FloatV struct {
	f  float64
	w32 bool
}

func (a ArrayV) get(i int) Value {
	if v, ok := a.elems[i]; ok {
		return v
	}
	return a.def
}
func (a ArrayV) set(i int, v Value) ArrayV {
	m := make(map[int]Value, len(a.elems)+1)
	for k, x := range a.elems {
		m[k] = x
	}
	m[i] = v
	return ArrayV{n: a.n, elems: m, def: a.def}
}

// ---------------------------------------------------------------- state

type Obj struct {
	v     Value
	epoch int
}

type deferred struct {
	fn   Value
	args []Value
	call *ssa.CallCommon
}

type Frame struct {
	fn     *ssa.Function
	env    map[ssa.Value]Value
	blk    *ssa.BasicBlock
	idx    int
	prev   *ssa.BasicBlock
	defers []deferred
	dest   ssa.Value // call instruction in the caller that receives the result
	loops  map[int]int
	runningDefers bool
	retVals []Value
}

type State struct {
	m      *Machine
	heap   map[int]*Obj
	epoch  int
	frames []*Frame
	pc     []*Term
	status string // "", "done", "panic:..", "assert:..", "unsupported:.."
	info   string
	reached map[string]bool
	summaryResult []Value // when the bottom frame of a sub-exploration returns
	gs     []*G
	cur    int
	locks  map[string]lockState
	wgs    map[string]int64
	sched  []int
	nd     []ndRec   // nondet values drawn on this path, in call order
	obs    []obsRec  // vObserve outputs
	known  []string  // known-finding classes this path belongs to
	yields []string  // vYield ids granted on this path
	uf     bool      // an uninterpreted-function stub influenced this path
	lastNow *Term
	preemptions int
	atPreempt   bool
	timerYielded bool // this select already let the other goroutines run before its timer fires
	initDone    map[*ssa.Package]bool // dependency packages whose initialiser has run in this state's lineage
}

type ndRec struct {
	name string
	t    *Term
}
type obsRec struct {
	name string
	ts   []*Term
}

type Machine struct {
	ctx      *Ctx
	prog     *ssa.Program
	nextObj  int
	nextEp   int
	globals  map[*ssa.Global]int // object ids
	sentinel map[string]*ErrV
	nerr     int
	unwind   int
	summarize map[string]bool
	stats    struct{ paths, forks, instrs, merged int }
	funcsSeen map[string]int
	results  []*State
	assertsChecked int
	initPkgs map[string]bool
	initDone map[*ssa.Package]bool
	tolerant bool
	subrun int
	lazyInits []string
	stubs    map[string]int
	lenientFmt bool
	timeT    types.Type
	curFn    *ssa.Function
	curSt    *State
	hpkg     *ssa.Package
	skipGo   []string
	preemptLock bool
	preemptSelect bool // non-blocking selects in preempt_at functions are preemption points
	preemptBound int
	preemptAt   []string
	timersOff   bool
	timersWait  bool
	tickerFires int
	xcheckEvery int
	xcheckMax   int
	xcheckDir   string
	xcheckTag   string
	replace  map[string]string
	curIn    ssa.Instruction
}

func (m *Machine) newState() *State {
	m.nextEp++
	return &State{m: m, heap: map[int]*Obj{}, epoch: m.nextEp, reached: map[string]bool{}, gs: []*G{{id: 0}}, locks: map[string]lockState{}, wgs: map[string]int64{}}
}

func (s *State) clone() *State {
	s.m.nextEp++
	n := &State{m: s.m, heap: make(map[int]*Obj, len(s.heap)), epoch: s.m.nextEp, status: s.status, info: s.info}
	for k, v := range s.heap {
		n.heap[k] = v
	}
	// the original also gets a new epoch so that neither writes in place
	s.m.nextEp++
	s.epoch = s.m.nextEp
	cloneFrames := func(fs []*Frame) []*Frame {
		out := make([]*Frame, len(fs))
		for i, f := range fs {
			nf := *f
			nf.env = make(map[ssa.Value]Value, len(f.env))
			for k, v := range f.env {
				nf.env[k] = v
			}
			nf.defers = append([]deferred(nil), f.defers...)
			nf.loops = make(map[int]int, len(f.loops))
			for k, v := range f.loops {
				nf.loops[k] = v
			}
			out[i] = &nf
		}
		return out
	}
	n.frames = cloneFrames(s.frames)
	n.cur = s.cur
	n.gs = make([]*G, len(s.gs))
	for i, g := range s.gs {
		ng := &G{id: g.id, done: g.done, daemon: g.daemon, lockYield: g.lockYield}
		if i == s.cur {
			ng.frames = n.frames
		} else {
			ng.frames = cloneFrames(g.frames)
		}
		n.gs[i] = ng
	}
	n.locks = make(map[string]lockState, len(s.locks))
	for k, v := range s.locks {
		n.locks[k] = v
	}
	n.wgs = make(map[string]int64, len(s.wgs))
	for k, v := range s.wgs {
		n.wgs[k] = v
	}
	n.sched = append([]int(nil), s.sched...)
	n.nd = append([]ndRec(nil), s.nd...)
	n.obs = append([]obsRec(nil), s.obs...)
	n.known = append([]string(nil), s.known...)
	n.yields = append([]string(nil), s.yields...)
	n.uf = s.uf
	n.lastNow = s.lastNow
	n.preemptions = s.preemptions
	n.initDone = make(map[*ssa.Package]bool, len(s.initDone))
	for k, v := range s.initDone {
		n.initDone[k] = v
	}
	n.atPreempt = s.atPreempt
	n.timerYielded = s.timerYielded
	n.pc = append([]*Term(nil), s.pc...)
	n.reached = map[string]bool{}
	for k := range s.reached {
		n.reached[k] = true
	}
	return n
}

func (s *State) alloc(v Value) int {
	s.m.nextObj++
	id := s.m.nextObj
	s.heap[id] = &Obj{v: v, epoch: s.epoch}
	return id
}

func getPath(v Value, path []int) Value {
	for _, p := range path {
		switch x := v.(type) {
		case StructV:
			v = x.f[p]
		case ArrayV:
			v = x.get(p)
		default:
			panic(fmt.Sprintf("getPath through %T", v))
		}
	}
	return v
}

func setPath(v Value, path []int, nv Value) Value {
	if len(path) == 0 {
		return nv
	}
	switch x := v.(type) {
	case StructV:
		f := append([]Value(nil), x.f...)
		f[path[0]] = setPath(x.f[path[0]], path[1:], nv)
		return StructV{f}
	case ArrayV:
		return x.set(path[0], setPath(x.get(path[0]), path[1:], nv))
	}
	panic(fmt.Sprintf("setPath through %T", v))
}

func (s *State) load(p Ptr) Value {
	o := s.heap[p.obj]
	if o == nil {
		panic(fmt.Sprintf("load from unknown object %d", p.obj))
	}
	return getPath(o.v, p.path)
}

func (s *State) store(p Ptr, v Value) {
	o := s.heap[p.obj]
	nv := setPath(o.v, p.path, v)
	if o.epoch == s.epoch {
		o.v = nv
	} else {
		s.heap[p.obj] = &Obj{v: nv, epoch: s.epoch}
	}
}

// ---------------------------------------------------------------- types helpers

func intWidth(t types.Type) (int, bool, bool) { // width, signed, ok
	b, ok := t.Underlying().(*types.Basic)
	if !ok {
		return 0, false, false
	}
	switch b.Kind() {
	case types.Bool, types.UntypedBool:
		return 0, false, true
	case types.Int8:
		return 8, true, true
	case types.Int16:
		return 16, true, true
	case types.Int32, types.UntypedRune:
		return 32, true, true
	case types.Int64, types.Int, types.UntypedInt:
		return 64, true, true
	case types.Uint8:
		return 8, false, true
	case types.Uint16:
		return 16, false, true
	case types.Uint32:
		return 32, false, true
	case types.Uint64, types.Uint, types.Uintptr:
		return 64, false, true
	}
	return 0, false, false
}

func (m *Machine) zero(t types.Type) Value {
	switch u := t.Underlying().(type) {
	case *types.Basic:
		if u.Info()&types.IsString != 0 {
			return StrV{}
		}
		if w, _, ok := intWidth(t); ok {
			if w == 0 {
				return Sc{m.ctx.Bool(false)}
			}
			return Sc{m.ctx.BV(0, w)}
		}
		if u.Info()&types.IsFloat != 0 {
			return FloatV{w32: u.Kind() == types.Float32}
		}
		return Opaque{"zero " + t.String()}
	case *types.Pointer:
		return Ptr{}
	case *types.Slice:
		return SliceV{}
	case *types.Struct:
		f := make([]Value, u.NumFields())
		for i := range f {
			f[i] = m.zero(u.Field(i).Type())
		}
		return StructV{f}
	case *types.Array:
		return ArrayV{n: int(u.Len()), def: m.zero(u.Elem())}
	case *types.Interface:
		return IfaceV{}
	case *types.Signature:
		return FuncV{}
	case *types.Map, *types.Chan:
		return Ptr{}
	case *types.Tuple:
		v := make([]Value, u.Len())
		for i := range v {
			v[i] = m.zero(u.At(i).Type())
		}
		return TupleV{v}
	}
	return Opaque{"zero " + t.String()}
}

func (m *Machine) constVal(c *ssa.Const) Value {
	if c.Value == nil {
		return m.zero(c.Type())
	}
	t := c.Type()
	if b, ok := t.Underlying().(*types.Basic); ok && b.Info()&types.IsString != 0 {
		s := constant.StringVal(c.Value)
		bs := make([]*Term, len(s))
		for i := 0; i < len(s); i++ {
			bs[i] = m.ctx.BV(uint64(s[i]), 8)
		}
		return StrV{b: bs}
	}
	if w, _, ok := intWidth(t); ok {
		if w == 0 {
			return Sc{m.ctx.Bool(constant.BoolVal(c.Value))}
		}
		if i, ok := constant.Int64Val(constant.ToInt(c.Value)); ok {
			return Sc{m.ctx.BV(uint64(i), w)}
		}
		u, _ := constant.Uint64Val(constant.ToInt(c.Value))
		return Sc{m.ctx.BV(u, w)}
	}
	if b, ok := t.Underlying().(*types.Basic); ok && b.Info()&types.IsFloat != 0 {
		f, _ := constant.Float64Val(constant.ToFloat(c.Value))
		if b.Kind() == types.Float32 {
			return FloatV{f: float64(float32(f)), w32: true}
		}
		return FloatV{f: f}
	}
	return Opaque{"const " + c.String()}
}

// ---------------------------------------------------------------- evaluation

func (s *State) top() *Frame { return s.frames[len(s.frames)-1] }

func (s *State) get(v ssa.Value) Value {
	switch x := v.(type) {
	case *ssa.Const:
		return s.m.constVal(x)
	case *ssa.Global:
		return Ptr{obj: s.m.globalObj(s, x)}
	case *ssa.Function:
		return FuncV{fn: x}
	case *ssa.Builtin:
		return Opaque{"builtin " + x.Name()}
	}
	f := s.top()
	if val, ok := f.env[v]; ok {
		return val
	}
	panic(fmt.Sprintf("no value for %s (%T) in %s", v.Name(), v, f.fn))
}

func (m *Machine) lazyInit(s *State, pkg *ssa.Package) {
	if pkg == nil || s.initDone[pkg] || m.initPkgs[pkg.Pkg.Path()] {
		return
	}
	if s.initDone == nil {
		s.initDone = map[*ssa.Package]bool{}
	}
	s.initDone[pkg] = true
	initFn := pkg.Func("init")
	if initFn == nil || initFn.Blocks == nil {
		return
	}
	saved := s.frames
	savedTol := m.tolerant
	m.tolerant = true
	s.frames = nil
	m.pushFrame(s, initFn, nil, nil, nil)
	before := m.stats.instrs
	m.subrun++
	succ := m.run(s, 0)
	m.subrun--
	if succ != nil {
		fmt.Println("WARNING: init of", pkg.Pkg.Path(), "forked")
	}
	m.lazyInits = append(m.lazyInits, fmt.Sprintf("%s(%d instrs, %s)", pkg.Pkg.Path(), m.stats.instrs-before, s.status))
	s.status, s.info = "", ""
	s.frames = saved
	m.tolerant = savedTol
}

func (m *Machine) globalObj(s *State, g *ssa.Global) int {
	id := m.globalObj0(s, g)
	if o, ok := s.heap[id]; ok {
		if _, opaque := o.v.(Opaque); opaque && types.Identical(g.Type().(*types.Pointer).Elem(), types.Universe.Lookup("error").Type()) {
			// an error-typed global whose initialiser was not interpreted (foreign package, shallow init)
			// gets sentinel identity instead of an opaque value
			s.heap[id] = &Obj{v: IfaceV{typ: types.Universe.Lookup("error").Type(), v: m.sentinelErr(g.String())}, epoch: s.epoch}
		}
	}
	return id
}

func (m *Machine) globalObj0(s *State, g *ssa.Global) int {
	if id, ok := m.globals[g]; ok {
		if _, ok := s.heap[id]; ok {
			return id
		}
	}
	if !strings.HasPrefix(g.Name(), "init$") {
		m.lazyInit(s, g.Pkg)
		if id, ok := m.globals[g]; ok {
			if o, ok := s.heap[id]; ok {
				// an error-typed global whose initialiser was not interpreted (foreign package, shallow
				// init) gets sentinel identity instead of an opaque value
				if _, opaque := o.v.(Opaque); opaque && types.Identical(g.Type().(*types.Pointer).Elem(), types.Universe.Lookup("error").Type()) {
					s.heap[id] = &Obj{v: IfaceV{typ: types.Universe.Lookup("error").Type(), v: m.sentinelErr(g.String())}, epoch: s.epoch}
				}
				return id
			}
		}
	}
	et := g.Type().(*types.Pointer).Elem()
	var v Value = m.zero(et)
	// lazily give sentinel identity to error-typed globals
	if types.Identical(et, types.Universe.Lookup("error").Type()) {
		v = IfaceV{typ: et, v: m.sentinelErr(g.String())}
	}
	id, ok := m.globals[g]
	if !ok {
		m.nextObj++
		id = m.nextObj
		m.globals[g] = id
	}
	s.heap[id] = &Obj{v: v, epoch: s.epoch}
	return id
}

func (m *Machine) sentinelErr(name string) *ErrV {
	if e, ok := m.sentinel[name]; ok {
		return e
	}
	m.nerr++
	e := &ErrV{id: m.nerr, msg: name}
	m.sentinel[name] = e
	return e
}

func (s *State) fail(status, info string) {
	s.status = status
	s.info = info
}

// feasible checks pc ∧ extra.
func (s *State) feasible(extra ...*Term) bool {
	for _, e := range extra {
		if e.konst && e.cv == 0 {
			return false
		}
	}
	allConst := true
	for _, e := range extra {
		if !e.konst {
			allConst = false
		}
	}
	if allConst {
		return true // pc is maintained feasible
	}
	r, _ := s.m.ctx.Check(append(append([]*Term(nil), s.pc...), extra...), nil)
	return r != "unsat"
}

// concretize enumerates the feasible values of t (up to limit) under pc.
func (s *State) concretize(t *Term, limit int) ([]uint64, bool) {
	if t.konst {
		return []uint64{t.cv}, true
	}
	var vals []uint64
	conds := append([]*Term(nil), s.pc...)
	for len(vals) <= limit {
		r, m := s.m.ctx.Check(conds, []*Term{t})
		if r == "unsat" {
			return vals, true
		}
		if r != "sat" {
			return vals, false
		}
		v := m[t]
		vals = append(vals, v)
		conds = append(conds, s.m.ctx.Not(s.m.ctx.Cmp("=", t, s.m.ctx.BV(v, t.w))))
	}
	return vals, false
}

func sc(v Value) *Term {
	switch x := v.(type) {
	case Sc:
		return x.t
	}
	panic(fmt.Sprintf("expected scalar, got %T %v", v, v))
}

func (m *Machine) binop(op token.Token, x, y Value, t types.Type, xt types.Type) Value {
	c := m.ctx
	if _, ok := x.(Opaque); ok {
		return Opaque{"arithmetic on an opaque (floating point) value"}
	}
	if _, ok := y.(Opaque); ok {
		return Opaque{"arithmetic on an opaque (floating point) value"}
	}
	if fx, ok := x.(FloatV); ok {
		fy, ok := y.(FloatV)
		if !ok {
			return Opaque{"arithmetic on an opaque (floating point) value"}
		}
		rnd := func(f float64) Value {
			if fx.w32 {
				return FloatV{f: float64(float32(f)), w32: true}
			}
			return FloatV{f: f}
		}
		switch op {
		case token.ADD:
			return rnd(fx.f + fy.f)
		case token.SUB:
			return rnd(fx.f - fy.f)
		case token.MUL:
			return rnd(fx.f * fy.f)
		case token.QUO:
			return rnd(fx.f / fy.f)
		case token.EQL:
			return Sc{c.Bool(fx.f == fy.f)}
		case token.NEQ:
			return Sc{c.Bool(fx.f != fy.f)}
		case token.LSS:
			return Sc{c.Bool(fx.f < fy.f)}
		case token.LEQ:
			return Sc{c.Bool(fx.f <= fy.f)}
		case token.GTR:
			return Sc{c.Bool(fx.f > fy.f)}
		case token.GEQ:
			return Sc{c.Bool(fx.f >= fy.f)}
		}
		return Opaque{"arithmetic on an opaque (floating point) value"}
	}
	// strings
	if sx, ok := x.(StrV); ok {
		sy := y.(StrV)
		switch op {
		case token.ADD:
			if sx.box != nil || sy.box != nil {
				panic("concatenation with an opaque numeric string")
			}
			return StrV{b: append(append([]*Term(nil), sx.b...), sy.b...)}
		case token.EQL, token.NEQ:
			var r *Term
			if sx.box != nil || sy.box != nil {
				nx, ok1 := sx.box.(NumStr)
				ny, ok2 := sy.box.(NumStr)
				if !ok1 || !ok2 {
					panic("comparison of opaque string with plain string")
				}
				r = c.Cmp("=", nx.t, ny.t)
			} else if len(sx.b) != len(sy.b) {
				r = c.Bool(false)
			} else {
				r = c.Bool(true)
				for i := range sx.b {
					r = c.And(r, c.Cmp("=", sx.b[i], sy.b[i]))
				}
			}
			if op == token.NEQ {
				r = c.Not(r)
			}
			return Sc{r}
		}
		if sx.box == nil && sy.box == nil && (op == token.LSS || op == token.LEQ || op == token.GTR || op == token.GEQ) {
			cmp := m.cmpBytes(sx.b, sy.b) // -1 / 0 / 1 as 64-bit
			zero := c.BV(0, 64)
			switch op {
			case token.LSS:
				return Sc{c.Cmp("bvslt", cmp, zero)}
			case token.LEQ:
				return Sc{c.Cmp("bvsle", cmp, zero)}
			case token.GTR:
				return Sc{c.Cmp("bvsgt", cmp, zero)}
			default:
				return Sc{c.Cmp("bvsge", cmp, zero)}
			}
		}
		panic("string op " + op.String())
	}
	// pointers / interfaces equality
	switch xv := x.(type) {
	case Ptr:
		yv := y.(Ptr)
		eq := xv.obj == yv.obj && fmt.Sprint(xv.path) == fmt.Sprint(yv.path)
		if op == token.NEQ {
			eq = !eq
		}
		return Sc{c.Bool(eq)}
	case IfaceV:
		yv := y.(IfaceV)
		var eq bool
		if xv.typ == nil || yv.typ == nil {
			eq = xv.typ == nil && yv.typ == nil
		} else if ex, ok := xv.v.(*ErrV); ok {
			ey, ok2 := yv.v.(*ErrV)
			eq = ok2 && ex == ey
		} else if !types.Identical(xv.typ, yv.typ) {
			eq = false
		} else {
			// same dynamic type: compare the payloads (scalars, strings, pointers, comparable structs)
			switch xv.v.(type) {
			case Sc, StrV, Ptr, StructV:
				r := m.binop(token.EQL, xv.v, yv.v, types.Typ[types.Bool], xv.typ)
				if op == token.NEQ {
					return Sc{c.Not(sc(r))}
				}
				return r
			}
			panic("iface compare unsupported")
		}
		if op == token.NEQ {
			eq = !eq
		}
		return Sc{c.Bool(eq)}
	case StructV:
		eq := m.keyEq(xv, y)
		if op == token.NEQ {
			eq = c.Not(eq)
		}
		return Sc{eq}
	case FuncV:
		yv, _ := y.(FuncV)
		eq := (xv.fn == nil && !xv.noop) == (yv.fn == nil && !yv.noop)
		if op == token.NEQ {
			eq = !eq
		}
		return Sc{c.Bool(eq)}
	case SliceV:
		// only comparison with nil
		eq := xv.obj == 0 && y.(SliceV).obj == 0
		if op == token.NEQ {
			eq = !eq
		}
		return Sc{c.Bool(eq)}
	}
	a, b := sc(x), sc(y)
	_, signed, _ := intWidth(xt)
	if a.w == 0 { // bools
		switch op {
		case token.EQL:
			return Sc{c.Cmp("=", a, b)}
		case token.NEQ:
			return Sc{c.Not(c.Cmp("=", a, b))}
		case token.AND, token.LAND:
			return Sc{c.And(a, b)}
		case token.OR, token.LOR:
			return Sc{c.Or(a, b)}
		}
	}
	pick := func(s, u string) string {
		if signed {
			return s
		}
		return u
	}
	switch op {
	case token.ADD:
		return Sc{c.BvBin("bvadd", a, b)}
	case token.SUB:
		return Sc{c.BvBin("bvsub", a, b)}
	case token.MUL:
		return Sc{c.BvBin("bvmul", a, b)}
	case token.QUO:
		return Sc{c.BvBin(pick("bvsdiv", "bvudiv"), a, b)}
	case token.REM:
		return Sc{c.BvBin(pick("bvsrem", "bvurem"), a, b)}
	case token.AND:
		return Sc{c.BvBin("bvand", a, b)}
	case token.OR:
		return Sc{c.BvBin("bvor", a, b)}
	case token.XOR:
		return Sc{c.BvBin("bvxor", a, b)}
	case token.AND_NOT:
		return Sc{c.BvBin("bvand", a, c.mk(a.w, "bvnot", b))}
	case token.SHL, token.SHR:
		// shift count may have a different width
		bb := b
		if bb.w < a.w {
			bb = c.ZeroExt(bb, a.w)
		} else if bb.w > a.w {
			// saturate: if any high bit set, count >= width
			hi := c.Extract(bb.w-1, a.w, bb)
			lo := c.Extract(a.w-1, 0, bb)
			bb = c.Ite(c.Cmp("=", hi, c.BV(0, hi.w)), lo, c.BV(uint64(a.w), a.w))
		}
		if op == token.SHL {
			return Sc{c.BvBin("bvshl", a, bb)}
		}
		return Sc{c.BvBin(pick("bvashr", "bvlshr"), a, bb)}
	case token.EQL:
		return Sc{c.Cmp("=", a, b)}
	case token.NEQ:
		return Sc{c.Not(c.Cmp("=", a, b))}
	case token.LSS:
		return Sc{c.Cmp(pick("bvslt", "bvult"), a, b)}
	case token.LEQ:
		return Sc{c.Cmp(pick("bvsle", "bvule"), a, b)}
	case token.GTR:
		return Sc{c.Cmp(pick("bvsgt", "bvugt"), a, b)}
	case token.GEQ:
		return Sc{c.Cmp(pick("bvsge", "bvuge"), a, b)}
	}
	panic("binop " + op.String())
}

func (m *Machine) convert(v Value, from, to types.Type) Value {
	c := m.ctx
	if _, ok := v.(Opaque); ok {
		return v
	}
	if fv, ok := v.(FloatV); ok {
		if b, ok := to.Underlying().(*types.Basic); ok && b.Info()&types.IsFloat != 0 {
			if b.Kind() == types.Float32 {
				return FloatV{f: float64(float32(fv.f)), w32: true}
			}
			return FloatV{f: fv.f}
		}
		if wt, st, ok := intWidth(to); ok && wt > 0 {
			if st {
				return Sc{c.BV(uint64(int64(fv.f)), wt)}
			}
			return Sc{c.BV(uint64(fv.f), wt)}
		}
		return Opaque{"conversion of a float"}
	}
	if b, ok := to.Underlying().(*types.Basic); ok && b.Info()&types.IsFloat != 0 {
		if sv, ok := v.(Sc); ok && sv.t.konst {
			if wf, sf, ok := intWidth(from); ok && wf > 0 {
				var f float64
				if sf {
					f = float64(sext(sv.t.cv, wf))
				} else {
					f = float64(sv.t.cv)
				}
				if b.Kind() == types.Float32 {
					return FloatV{f: float64(float32(f)), w32: true}
				}
				return FloatV{f: f}
			}
		}
		return Opaque{"conversion to floating point"}
	}
	if sv, ok := v.(StrV); ok {
		if _, ok := to.Underlying().(*types.Slice); ok {
			return sv // handled by caller (needs alloc)
		}
		return sv
	}
	if _, ok := v.(SliceV); ok {
		return v // []byte -> string handled by caller
	}
	wt, _, ok1 := intWidth(to)
	wf, sf, ok2 := intWidth(from)
	if ok1 && ok2 && wt > 0 && wf > 0 {
		a := sc(v)
		switch {
		case wt == wf:
			return Sc{a}
		case wt < wf:
			return Sc{c.Extract(wt-1, 0, a)}
		case sf:
			return Sc{c.SignExt(a, wt)}
		default:
			return Sc{c.ZeroExt(a, wt)}
		}
	}
	return v
}

// ---------------------------------------------------------------- stepping

// step executes instructions of s until it terminates or forks. It returns the successor states
// (nil when s itself continues to be the only successor and has terminated).
func (m *Machine) run(s *State, stopDepth int) []*State {
	for s.status == "" {
		if len(s.frames) <= stopDepth {
			if stopDepth > 0 || m.subrun > 0 {
				return nil
			}
			if s.cur == 0 {
				s.status = "done"
				return nil
			}
			s.gs[s.cur].done = true
			if succ := m.schedule(s, false); succ != nil {
				return succ
			}
			continue
		}
		f := s.top()
		if f.idx >= len(f.blk.Instrs) {
			panic("fell off block")
		}
		in := f.blk.Instrs[f.idx]
		f.idx++
		m.stats.instrs++
		m.curFn, m.curIn, m.curSt = f.fn, in, s
		if m.tolerant {
			m.execTolerant(s, f, in)
			continue
		}
		if succ := m.exec(s, f, in); succ != nil {
			return succ
		}
	}
	return nil
}

func (m *Machine) execTolerant(s *State, f *Frame, in ssa.Instruction) {
	depth := len(s.frames)
	defer func() {
		if r := recover(); r != nil {
			m.tolerate(s, f, in, depth)
		}
	}()
	if ifi, ok := in.(*ssa.If); ok {
		if cv, ok := s.get(ifi.Cond).(Sc); !ok || !cv.t.konst {
			m.jump(s, f, f.blk.Succs[1])
			return
		}
	}
	succ := m.exec(s, f, in)
	if succ != nil || (s.status != "" && s.status != "done") {
		m.tolerate(s, f, in, depth)
	}
}

func (m *Machine) tolerate(s *State, f *Frame, in ssa.Instruction, depth int) {
	if os.Getenv("SPIKE_DEBUG") != "" {
		fmt.Printf("tolerate in %s: %s  [%s %s]\n", f.fn, in, s.status, s.info)
	}
	s.status, s.info = "", ""
	if len(s.frames) > depth {
		s.frames = s.frames[:depth]
	}
	if v, ok := in.(ssa.Value); ok {
		f.env[v] = Opaque{"tolerated " + in.String()}
	}
	switch in.(type) {
	case *ssa.Return, *ssa.Panic, *ssa.Jump, *ssa.If:
		// cannot continue this function: pop it with opaque results
		if len(s.frames) > 0 && s.frames[len(s.frames)-1] == f {
			var rv []Value
			res := f.fn.Signature.Results()
			for i := 0; i < res.Len(); i++ {
				rv = append(rv, Opaque{"tolerated return"})
			}
			m.doReturn(s, f, rv)
		}
	}
}

func (m *Machine) jump(s *State, f *Frame, to *ssa.BasicBlock) {
	// back-edge detection: target index <= current index is a crude but adequate test
	if to.Dominates(f.blk) {
		f.loops[to.Index]++
		if f.loops[to.Index] > m.unwind {
			s.fail("unwind", fmt.Sprintf("%s block %d", f.fn, to.Index))
			return
		}
	}
	f.prev = f.blk
	f.blk = to
	f.idx = 0
	// evaluate phis simultaneously
	var vals []Value
	var phis []*ssa.Phi
	for _, in := range to.Instrs {
		p, ok := in.(*ssa.Phi)
		if !ok {
			break
		}
		for i, pred := range to.Preds {
			if pred == f.prev {
				vals = append(vals, s.get(p.Edges[i]))
				break
			}
		}
		phis = append(phis, p)
	}
	for i, p := range phis {
		f.env[p] = vals[i]
	}
	f.idx = len(phis)
}

func (m *Machine) panicState(s *State, kind string, f *Frame, in ssa.Instruction) {
	pos := m.prog.Fset.Position(in.Pos())
	s.fail("panic", fmt.Sprintf("%s at %s (%s:%d)", kind, f.fn.String(), shortFile(pos.Filename), pos.Line))
}

func shortFile(p string) string {
	if i := strings.LastIndex(p, "/"); i >= 0 {
		return p[i+1:]
	}
	return p
}

// forkOn splits s on cond: returns states where cond holds / does not hold (nil if infeasible).
func (m *Machine) forkOn(s *State, cond *Term) (yes, no *State) {
	if cond.konst {
		if cond.cv == 1 {
			return s, nil
		}
		return nil, s
	}
	ny := m.ctx.Not(cond)
	fy := s.feasible(cond)
	fn := s.feasible(ny)
	switch {
	case fy && fn:
		m.stats.forks++
		no = s.clone()
		s.pc = append(s.pc, cond)
		no.pc = append(no.pc, ny)
		return s, no
	case fy:
		return s, nil
	case fn:
		return nil, s
	}
	// pc itself became infeasible?
	s.fail("infeasible", "")
	return nil, nil
}

func (m *Machine) exec(s *State, f *Frame, in ssa.Instruction) []*State {
	c := m.ctx
	switch x := in.(type) {
	case *ssa.Alloc:
		id := s.alloc(m.zero(x.Type().(*types.Pointer).Elem()))
		f.env[x] = Ptr{obj: id}
	case *ssa.BinOp:
		xv, yv := s.get(x.X), s.get(x.Y)
		if x.Op == token.QUO || x.Op == token.REM {
			if d, ok := yv.(Sc); ok {
				z := c.Cmp("=", d.t, c.BV(0, d.t.w))
				bad, ok2 := m.forkOn(s, z)
				if bad != nil && ok2 != nil {
					m.panicState(bad, "division by zero", f, in)
					// continue ok2 from this instruction again
					ok2.top().idx--
					return []*State{bad, ok2}
				} else if bad != nil {
					m.panicState(bad, "division by zero", f, in)
					return nil
				}
			}
		}
		f.env[x] = m.binop(x.Op, xv, yv, x.Type(), x.X.Type())
	case *ssa.UnOp:
		v := s.get(x.X)
		switch x.Op {
		case token.MUL:
			p := v.(Ptr)
			if p.obj == 0 {
				m.panicState(s, "nil dereference", f, in)
				return nil
			}
			f.env[x] = s.load(p)
		case token.ARROW:
			et := x.X.Type().Underlying().(*types.Chan).Elem()
			if !m.chanReady(s, v.(Ptr), false) {
				return m.block(s, f)
			}
			val, ok, _ := m.chanRecv(s, v.(Ptr), et)
			if x.CommaOk {
				f.env[x] = TupleV{[]Value{val, Sc{c.Bool(ok)}}}
			} else {
				f.env[x] = val
			}
		case token.NOT:
			f.env[x] = Sc{c.Not(sc(v))}
		case token.SUB:
			t := sc(v)
			f.env[x] = Sc{c.BvBin("bvsub", c.BV(0, t.w), t)}
		case token.XOR:
			t := sc(v)
			f.env[x] = Sc{c.mk(t.w, "bvnot", t)}
		default:
			s.fail("unsupported", "unop "+x.Op.String())
		}
	case *ssa.Store:
		p := s.get(x.Addr).(Ptr)
		if p.obj == 0 {
			m.panicState(s, "nil dereference", f, in)
			return nil
		}
		s.store(p, s.get(x.Val))
	case *ssa.FieldAddr:
		p := s.get(x.X).(Ptr)
		if p.obj == 0 {
			m.panicState(s, "nil dereference", f, in)
			return nil
		}
		f.env[x] = Ptr{obj: p.obj, path: append(append([]int(nil), p.path...), x.Field)}
	case *ssa.Field:
		f.env[x] = s.get(x.X).(StructV).f[x.Field]
	case *ssa.IndexAddr:
		return m.execIndexAddr(s, f, x)
	case *ssa.Index:
		return m.execIndex(s, f, x)
	case *ssa.Slice:
		return m.execSlice(s, f, x)
	case *ssa.MakeSlice:
		ln, cp := sc(s.get(x.Len)), sc(s.get(x.Cap))
		et := x.Type().Underlying().(*types.Slice).Elem()
		if !cp.konst && cp == ln {
			// symbolic length: enumerate the feasible values (bounded), negative = panic
			if ln.w < 64 {
				ln = c.SignExt(ln, 64)
			}
			return m.enumIndex(s, f, x, ln, 0, m.maxMake(), "make length", func(st *State, n int) {
				id := st.alloc(ArrayV{n: n, def: m.zero(et)})
				st.top().env[x] = SliceV{obj: id, off: 0, len: n, cap: n}
			})
		}
		if !ln.konst || !cp.konst {
			s.fail("unsupported", "symbolic make length/cap")
			return nil
		}
		id := s.alloc(ArrayV{n: int(cp.cv), def: m.zero(et)})
		f.env[x] = SliceV{obj: id, off: 0, len: int(ln.cv), cap: int(cp.cv)}
	case *ssa.Phi:
		panic("phi outside block head")
	case *ssa.Convert:
		v := s.get(x.X)
		if sv, ok := v.(Sc); ok {
			if b, ok := x.Type().Underlying().(*types.Basic); ok && b.Info()&types.IsString != 0 {
				// string(rune)
				if !sv.t.konst {
					s.fail("unsupported", "string(symbolic rune)")
					return nil
				}
				f.env[x] = m.mkStr(string(rune(sext(sv.t.cv, sv.t.w))))
				return nil
			}
		}
		switch vv := v.(type) {
		case StrV:
			if _, ok := x.Type().Underlying().(*types.Slice); ok && vv.box != nil {
				id := s.alloc(BoxV{v: vv.box})
				f.env[x] = SliceV{obj: id, len: 1, cap: 1}
				return nil
			}
			if _, ok := x.Type().Underlying().(*types.Slice); ok {
				arr := ArrayV{n: len(vv.b), def: Sc{c.BV(0, 8)}, elems: map[int]Value{}}
				for i, b := range vv.b {
					arr.elems[i] = Sc{b}
				}
				id := s.alloc(arr)
				f.env[x] = SliceV{obj: id, len: len(vv.b), cap: len(vv.b)}
				return nil
			}
		case SliceV:
			if b, ok := x.Type().Underlying().(*types.Basic); ok && b.Info()&types.IsString != 0 {
				if vv.obj != 0 {
					if bx, isBox := s.heap[vv.obj].v.(BoxV); isBox {
						f.env[x] = StrV{box: bx.v}
						return nil
					}
				}
				bs := make([]*Term, vv.len)
				for i := 0; i < vv.len; i++ {
					bs[i] = sc(m.sliceElem(s, vv, i))
				}
				f.env[x] = StrV{b: bs}
				return nil
			}
		}
		f.env[x] = m.convert(v, x.X.Type(), x.Type())
	case *ssa.ChangeType:
		f.env[x] = s.get(x.X)
	case *ssa.ChangeInterface:
		f.env[x] = s.get(x.X)
	case *ssa.MakeInterface:
		f.env[x] = IfaceV{typ: x.X.Type(), v: s.get(x.X)}
	case *ssa.TypeAssert:
		iv := s.get(x.X).(IfaceV)
		ok := iv.typ != nil && types.Identical(iv.typ, x.AssertedType)
		_, toIface := x.AssertedType.Underlying().(*types.Interface)
		if it, isIface := x.AssertedType.Underlying().(*types.Interface); isIface {
			ok = iv.typ != nil && (types.Implements(iv.typ, it) || it.NumMethods() == 0)
			if _, isErr := iv.v.(*ErrV); isErr && iv.typ != nil {
				// model error values carry the static type `error`: they implement error and nothing else
				ok = it.NumMethods() == 0 || (it.NumMethods() == 1 && it.Method(0).Name() == "Error")
			}
		}
		if x.CommaOk {
			var v Value = m.zero(x.AssertedType)
			if ok {
				v = iv.v
				if _, isIface := x.AssertedType.Underlying().(*types.Interface); isIface {
					v = iv
				}
			}
			f.env[x] = TupleV{[]Value{v, Sc{c.Bool(ok)}}}
		} else {
			if !ok {
				m.panicState(s, "type assertion", f, in)
				return nil
			}
			f.env[x] = iv.v
			if toIface {
				f.env[x] = iv
			}
		}
	case *ssa.Extract:
		f.env[x] = s.get(x.Tuple).(TupleV).v[x.Index]
	case *ssa.MakeClosure:
		fv := FuncV{fn: x.Fn.(*ssa.Function)}
		for _, b := range x.Bindings {
			fv.free = append(fv.free, s.get(b))
		}
		f.env[x] = fv
	case *ssa.Jump:
		m.jump(s, f, f.blk.Succs[0])
	case *ssa.If:
		cond := sc(s.get(x.Cond))
		yes, no := m.forkOn(s, cond)
		var out []*State
		if yes != nil {
			m.jump(yes, yes.top(), f.blk.Succs[0])
			out = append(out, yes)
		}
		if no != nil {
			nf := no.top()
			m.jump(no, nf, nf.blk.Succs[1])
			out = append(out, no)
		}
		if len(out) == 1 && out[0] == s {
			return nil
		}
		return out
	case *ssa.Return:
		var rv []Value
		for _, r := range x.Results {
			rv = append(rv, s.get(r))
		}
		m.doReturn(s, f, rv)
	case *ssa.RunDefers:
		if len(f.defers) > 0 {
			d := f.defers[len(f.defers)-1]
			f.defers = f.defers[:len(f.defers)-1]
			f.idx-- // come back here after the deferred call
			return m.callValue(s, f, nil, d.call, d.fn, d.args)
		}
	case *ssa.Defer:
		cc := x.Common()
		var args []Value
		for _, a := range cc.Args {
			args = append(args, s.get(a))
		}
		var fnv Value
		if !cc.IsInvoke() {
			if _, isB := cc.Value.(*ssa.Builtin); !isB {
				fnv = s.get(cc.Value)
			}
		} else {
			fnv = s.get(cc.Value)
		}
		f.defers = append(f.defers, deferred{fn: fnv, args: args, call: cc})
	case *ssa.Range:
		m.execRange(s, f, x)
	case *ssa.Next:
		m.execNext(s, f, x)
	case *ssa.Select:
		return m.execSelect(s, f, x)
	case *ssa.Send:
		if !m.chanReady(s, s.get(x.Chan).(Ptr), true) {
			return m.block(s, f)
		}
		m.chanSend(s, f, in, s.get(x.Chan).(Ptr), s.get(x.X))
	case *ssa.Go:
		m.execGo(s, f, x)
	case *ssa.MakeMap, *ssa.MapUpdate, *ssa.MakeChan:
		r, _ := m.execMapOps(s, f, in)
		return r
	case *ssa.Lookup:
		if r, ok := m.execMapOps(s, f, in); ok {
			return r
		}
		// string index
		str := s.get(x.X).(StrV)
		idx := sc(s.get(x.Index))
		if idx.w < 64 {
			idx = c.SignExt(idx, 64)
		}
		return m.enumIndex(s, f, x, idx, 0, len(str.b)-1, "index", func(st *State, i int) {
			st.top().env[x] = Sc{str.b[i]}
		})
	case *ssa.Panic:
		m.panicState(s, "explicit panic", f, in)
	case *ssa.Call:
		return m.execCall(s, f, x)
	case *ssa.DebugRef:
	default:
		s.fail("unsupported", fmt.Sprintf("instruction %T in %s", in, f.fn))
	}
	return nil
}

func (m *Machine) doReturn(s *State, f *Frame, rv []Value) {
	s.frames = s.frames[:len(s.frames)-1]
	if len(s.frames) == 0 || f.dest == nil {
		s.summaryResult = rv
		return
	}
	caller := s.top()
	switch len(rv) {
	case 0:
	case 1:
		caller.env[f.dest] = rv[0]
	default:
		caller.env[f.dest] = TupleV{rv}
	}
}

func (m *Machine) maxMake() int { return 1 << 31 }

func (m *Machine) sliceElem(s *State, sl SliceV, i int) Value {
	arr := getPath(s.heap[sl.obj].v, sl.path).(ArrayV)
	return arr.get(sl.off + i)
}

// boundsFork: given symbolic index idx (64-bit signed) and concrete n, fork off the panic path and
// return the concrete feasible indices for the ok path(s).
func (m *Machine) enumIndex(s *State, f *Frame, in ssa.Instruction, idx *Term, lo, hi int, what string, cont func(st *State, i int)) []*State {
	c := m.ctx
	if idx.konst {
		i := int(sext(idx.cv, idx.w))
		if i < lo || i > hi {
			m.panicState(s, what+" out of range", f, in)
			return nil
		}
		cont(s, i)
		return nil
	}
	w := idx.w
	inb := c.And(c.Cmp("bvsge", idx, c.BV(uint64(lo), w)), c.Cmp("bvsle", idx, c.BV(uint64(hi), w)))
	ok, bad := m.forkOn(s, inb)
	var out []*State
	if bad != nil {
		m.panicState(bad, what+" out of range", bad.top(), in)
		out = append(out, bad)
	}
	if ok != nil {
		vals, complete := ok.concretize(idx, min(hi-lo+2, 300))
		if !complete {
			ok.fail("unsupported", "could not enumerate index")
			return append(out, ok)
		}
		sort.Slice(vals, func(i, j int) bool { return vals[i] < vals[j] })
		for k, v := range vals {
			st := ok
			if k < len(vals)-1 {
				st = ok.clone()
				m.stats.forks++
			}
			st.pc = append(st.pc, c.Cmp("=", idx, c.BV(v, w)))
			cont(st, int(sext(v, w)))
			out = append(out, st)
		}
	}
	if len(out) == 1 && out[0] == s {
		return nil
	}
	return out
}

func (m *Machine) execIndexAddr(s *State, f *Frame, x *ssa.IndexAddr) []*State {
	base := s.get(x.X)
	idx := sc(s.get(x.Index))
	if idx.w < 64 {
		idx = m.ctx.SignExt(idx, 64)
	}
	switch b := base.(type) {
	case SliceV:
		return m.enumIndex(s, f, x, idx, 0, b.len-1, "index", func(st *State, i int) {
			st.top().env[x] = Ptr{obj: b.obj, path: append(append([]int(nil), b.path...), b.off+i)}
		})
	case Ptr: // *array
		arr := s.load(b).(ArrayV)
		return m.enumIndex(s, f, x, idx, 0, arr.n-1, "index", func(st *State, i int) {
			st.top().env[x] = Ptr{obj: b.obj, path: append(append([]int(nil), b.path...), i)}
		})
	}
	s.fail("unsupported", fmt.Sprintf("IndexAddr on %T", base))
	return nil
}

func (m *Machine) execIndex(s *State, f *Frame, x *ssa.Index) []*State {
	base := s.get(x.X)
	idx := sc(s.get(x.Index))
	if idx.w < 64 {
		idx = m.ctx.SignExt(idx, 64)
	}
	switch b := base.(type) {
	case StrV:
		return m.enumIndex(s, f, x, idx, 0, len(b.b)-1, "index", func(st *State, i int) {
			st.top().env[x] = Sc{b.b[i]}
		})
	case ArrayV:
		return m.enumIndex(s, f, x, idx, 0, b.n-1, "index", func(st *State, i int) {
			st.top().env[x] = b.get(i)
		})
	}
	s.fail("unsupported", fmt.Sprintf("Index on %T", base))
	return nil
}

func (m *Machine) execSlice(s *State, f *Frame, x *ssa.Slice) []*State {
	c := m.ctx
	base := s.get(x.X)
	var obj int
	var path []int
	var off, ln, cp int
	isStr := false
	var str StrV
	switch b := base.(type) {
	case SliceV:
		obj, path, off, ln, cp = b.obj, b.path, b.off, b.len, b.cap
	case Ptr:
		arr := s.load(b).(ArrayV)
		obj, path, off, ln, cp = b.obj, b.path, 0, arr.n, arr.n
	case StrV:
		isStr, str, ln, cp = true, b, len(b.b), len(b.b)
	default:
		s.fail("unsupported", fmt.Sprintf("Slice on %T", base))
		return nil
	}
	lo := c.BV(0, 64)
	hi := c.BV(uint64(ln), 64)
	if x.Low != nil {
		lo = sc(s.get(x.Low))
	}
	if x.High != nil {
		hi = sc(s.get(x.High))
	}
	if x.Max != nil {
		mx := sc(s.get(x.Max))
		if !mx.konst || int(mx.cv) > cp {
			s.fail("unsupported", "3-index slice with a symbolic or out-of-range max")
			return nil
		}
		cp = int(mx.cv) // s[l:h:max]: capacity limited to max-l
	}
	if lo.w < 64 {
		lo = c.SignExt(lo, 64)
	}
	if hi.w < 64 {
		hi = c.SignExt(hi, 64)
	}
	// enumerate high in [0,cap], then low in [0,high]
	sub := map[*State][]*State{}
	r1 := m.enumIndex(s, f, x, hi, 0, cp, "slice bounds", func(st *State, h int) {
		r2 := m.enumIndex(st, st.top(), x, lo, 0, h, "slice bounds", func(st2 *State, l int) {
			if isStr {
				st2.top().env[x] = StrV{b: str.b[l:h]}
			} else {
				st2.top().env[x] = SliceV{obj: obj, path: path, off: off + l, len: h - l, cap: cp - l}
			}
		})
		if r2 != nil {
			sub[st] = r2
		}
	})
	if r1 == nil {
		r1 = []*State{s}
	}
	var res []*State
	for _, st := range r1 {
		if r2, ok := sub[st]; ok {
			res = append(res, r2...)
		} else {
			res = append(res, st)
		}
	}
	if len(res) == 1 && res[0] == s {
		return nil
	}
	return res
}
