package main

import (
	"fmt"
	"go/types"
	"net/url"
	"path/filepath"
	"strconv"
	"strings"

	"golang.org/x/tools/go/ssa"
)

// NumStr is the content of an opaque string/[]byte that renders one symbolic integer with "%d".
type NumStr struct{ t *Term }

// toGo converts a fully concrete value to a Go value for native formatting.
func (m *Machine) toGo(s *State, v Value, t types.Type) (any, bool) {
	switch x := v.(type) {
	case Sc:
		if !x.t.konst {
			return nil, false
		}
		w, signed, _ := intWidth(t)
		if w == 0 || x.t.w == 0 {
			return x.t.cv != 0, true
		}
		if signed {
			return sext(x.t.cv, x.t.w), true
		}
		return x.t.cv, true
	case StrV:
		if x.box != nil {
			return nil, false
		}
		b := make([]byte, len(x.b))
		for i, tm := range x.b {
			if !tm.konst {
				return nil, false
			}
			b[i] = byte(tm.cv)
		}
		return string(b), true
	case SliceV:
		if x.obj != 0 {
			if _, isBox := s.heap[x.obj].v.(BoxV); isBox {
				return nil, false
			}
		}
		b := make([]byte, x.len)
		for i := 0; i < x.len; i++ {
			e, ok := m.sliceElem(s, x, i).(Sc)
			if !ok || !e.t.konst || e.t.w != 8 {
				return nil, false
			}
			b[i] = byte(e.t.cv)
		}
		return b, true
	case IfaceV:
		if x.typ == nil {
			return nil, true
		}
		if e, ok := x.v.(*ErrV); ok {
			return fmt.Errorf("%s", e.msg), true
		}
		return m.toGo(s, x.v, x.typ)
	case *ErrV:
		return fmt.Errorf("%s", x.msg), true
	case Ptr:
		if x.obj == 0 {
			return nil, true
		}
		return nil, false
	}
	return nil, false
}

func (m *Machine) mkStr(sv string) StrV {
	bs := make([]*Term, len(sv))
	for i := 0; i < len(sv); i++ {
		bs[i] = m.ctx.BV(uint64(sv[i]), 8)
	}
	return StrV{b: bs}
}

// variadic returns the elements of a ...any argument.
func (m *Machine) variadic(s *State, v Value) []IfaceV {
	sl, ok := v.(SliceV)
	if !ok || sl.obj == 0 {
		return nil
	}
	out := make([]IfaceV, sl.len)
	for i := range out {
		out[i], _ = m.sliceElem(s, sl, i).(IfaceV)
	}
	return out
}

// fmtIntrinsic handles Sprintf / Sprint / Sscanf / Errorf-style formatting.
func (m *Machine) fmtIntrinsic(s *State, f *Frame, x *ssa.Call, name string, args []Value) (succ []*State, handled bool) {
	handled = m.fmtIntrinsic0(s, f, x, name, args, &succ)
	return
}

func (m *Machine) fmtIntrinsic0(s *State, f *Frame, x *ssa.Call, name string, args []Value, succ *[]*State) bool {
	switch name {
	case "fmt.Sprintf":
		format, ok := m.toGo(s, args[0], types.Typ[types.String])
		if !ok {
			s.fail("unsupported", "Sprintf with symbolic format")
			return true
		}
		va := m.variadic(s, args[1])
		goArgs := make([]any, len(va))
		allConcrete := true
		for i, a := range va {
			g, ok := m.toGo(s, a, nil)
			if !ok {
				allConcrete = false
			}
			goArgs[i] = g
		}
		if allConcrete {
			f.env[x] = m.mkStr(fmt.Sprintf(format.(string), goArgs...))
			return true
		}
		if format.(string) == "%d" && len(va) == 1 {
			if sc0, ok := va[0].v.(Sc); ok {
				_, signed, _ := intWidth(va[0].typ)
				t := sc0.t
				if t.w < 64 {
					if signed {
						t = m.ctx.SignExt(t, 64)
					} else {
						t = m.ctx.ZeroExt(t, 64)
					}
				}
				m.stubs["fmt.Sprintf(\"%d\", symbolic) as opaque numeric string"]++
				f.env[x] = StrV{box: NumStr{t}}
				return true
			}
		}
		// one symbolic integer argument with few feasible values: enumerate with the solver and fork
		symIdx := -1
		for i, a := range va {
			if _, ok := m.toGo(s, a, nil); !ok {
				if symIdx >= 0 {
					symIdx = -2
					break
				}
				symIdx = i
			}
		}
		if symIdx >= 0 {
			if sv, ok := va[symIdx].v.(Sc); ok && sv.t.w > 0 {
				vals, complete := s.concretize(sv.t, 8)
				if complete && len(vals) > 0 {
					_, signed, _ := intWidth(va[symIdx].typ)
					var out []*State
					for k, v := range vals {
						st := s
						if k < len(vals)-1 {
							st = s.clone()
							m.stats.forks++
						}
						st.pc = append(st.pc, m.ctx.Cmp("=", sv.t, m.ctx.BV(v, sv.t.w)))
						ga := append([]any(nil), goArgs...)
						if signed {
							ga[symIdx] = sext(v, sv.t.w)
						} else {
							ga[symIdx] = v
						}
						st.top().env[x] = m.mkStr(fmt.Sprintf(format.(string), ga...))
						out = append(out, st)
					}
					if len(out) > 1 {
						*succ = out
					}
					m.stubs["fmt.Sprintf with a symbolic integer: solver-enumerated values, one path each"]++
					return true
				}
			}
		}
		if format.(string) == "%s-%020d" && len(va) == 2 {
			if n, ok := va[1].v.(Sc); ok && n.t.w == 64 {
				if base, ok := va[0].v.(StrV); ok {
					if parts, ok := m.strParts(base); ok {
						np := append(append([]segPart(nil), parts...), segPart{lit: m.mkStr("-").b}, segPart{num: n.t})
						m.stubs["fmt.Sprintf(\"%s-%020d\", s, symbolic) as segmented string"]++
						f.env[x] = StrV{box: SegStr{np}}
						return true
					}
				}
			}
		}
		if m.lenientFmt {
			m.stubs["fmt.Sprintf with symbolic arguments in a message/label: empty string"]++
			f.env[x] = StrV{}
			return true
		}
		s.fail("unsupported", "Sprintf "+format.(string)+" with symbolic arguments")
		return true
	case "fmt.Sprint":
		va := m.variadic(s, args[0])
		goArgs := make([]any, len(va))
		for i, a := range va {
			g, ok := m.toGo(s, a, nil)
			if !ok {
				f.env[x] = StrV{}
				m.stubs["fmt.Sprint with symbolic arguments: empty string"]++
				return true
			}
			goArgs[i] = g
		}
		f.env[x] = m.mkStr(fmt.Sprint(goArgs...))
		return true
	case "fmt.Sscanf", "fmt.Sscan":
		var format any = "%d"
		ok := true
		var va []IfaceV
		if name == "fmt.Sscan" {
			va = m.variadic(s, args[1]) // Sscan(str, &int): one integer destination, same as "%d"
		} else {
			format, ok = m.toGo(s, args[1], types.Typ[types.String])
			va = m.variadic(s, args[2])
		}
		if !ok || len(va) != 1 {
			s.fail("unsupported", "Sscanf format")
			return true
		}
		dst, ok := va[0].v.(Ptr)
		if !ok {
			s.fail("unsupported", "Sscanf destination")
			return true
		}
		et := va[0].typ.(*types.Pointer).Elem()
		w, signed, isInt := intWidth(et)
		if !isInt || w == 0 {
			s.fail("unsupported", "Sscanf destination type")
			return true
		}
		str := args[0].(StrV)
		errT := x.Type().(*types.Tuple).At(1).Type()
		if ns, ok := str.box.(NumStr); ok && format.(string) == "%d" {
			t := ns.t
			if w < 64 {
				t = m.ctx.Extract(w-1, 0, t)
			}
			s.store(dst, Sc{t})
			f.env[x] = TupleV{[]Value{Sc{m.ctx.BV(1, 64)}, IfaceV{}}}
			return true
		}
		g, ok := m.toGo(s, str, types.Typ[types.String])
		if !ok {
			s.fail("unsupported", "Sscanf of symbolic string")
			return true
		}
		var n int64
		var cnt int
		var err error
		if signed {
			cnt, err = fmt.Sscanf(g.(string), format.(string), &n)
		} else {
			var un uint64
			cnt, err = fmt.Sscanf(g.(string), format.(string), &un)
			n = int64(un)
		}
		if err != nil {
			m.nerr++
			f.env[x] = TupleV{[]Value{Sc{m.ctx.BV(uint64(cnt), 64)}, IfaceV{typ: errT, v: &ErrV{id: m.nerr, msg: "sscanf: " + err.Error()}}}}
			return true
		}
		s.store(dst, Sc{m.ctx.BV(uint64(n), w)})
		f.env[x] = TupleV{[]Value{Sc{m.ctx.BV(1, 64)}, IfaceV{}}}
		return true
	case "fmt.Errorf", "github.com/pkg/errors.Errorf":
		m.nerr++
		msg := "errorf"
		if g, ok := m.toGo(s, args[0], types.Typ[types.String]); ok {
			msg = g.(string)
		}
		e := &ErrV{id: m.nerr, msg: msg}
		// %w wrapping: keep the first error argument as cause
		for _, a := range m.variadic(s, args[1]) {
			if c, ok := a.v.(*ErrV); ok && strings.Contains(msg, "%w") {
				e.cause = c
				break
			}
		}
		f.env[x] = IfaceV{typ: x.Type(), v: e}
		return true
	}
	return false
}

// SegStr is an opaque string made of literal byte runs and %020d renderings of symbolic uint64s.
type SegStr struct{ parts []segPart }
type segPart struct {
	lit []*Term
	num *Term // non-nil: 20-digit zero-padded decimal rendering of this 64-bit term
}

func (m *Machine) strParts(v StrV) ([]segPart, bool) {
	if v.box == nil {
		return []segPart{{lit: v.b}}, true
	}
	if ss, ok := v.box.(SegStr); ok {
		return ss.parts, true
	}
	return nil, false
}

// nativeStringFn evaluates a pure library function natively when all its arguments are concrete.
func (m *Machine) nativeStringFn(s *State, f *Frame, x *ssa.Call, name string, args []Value) bool {
	str := func(i int) (string, bool) {
		g, ok := m.toGo(s, args[i], types.Typ[types.String])
		if !ok || g == nil {
			return "", false
		}
		sv, ok := g.(string)
		return sv, ok
	}
	c := m.ctx
	switch name {
	case "strings.HasPrefix", "strings.HasSuffix", "strings.Contains":
		a, ok1 := str(0)
		b, ok2 := str(1)
		if !ok1 || !ok2 {
			// symbolic bytes, concrete lengths: HasPrefix can be expressed directly
			if name == "strings.HasPrefix" {
				sa, sb := args[0].(StrV), args[1].(StrV)
				if sa.box == nil && sb.box == nil {
					if len(sb.b) > len(sa.b) {
						f.env[x] = Sc{c.Bool(false)}
						return true
					}
					r := c.Bool(true)
					for i := range sb.b {
						r = c.And(r, c.Cmp("=", sa.b[i], sb.b[i]))
					}
					f.env[x] = Sc{r}
					return true
				}
			}
			return false
		}
		var r bool
		switch name {
		case "strings.HasPrefix":
			r = strings.HasPrefix(a, b)
		case "strings.HasSuffix":
			r = strings.HasSuffix(a, b)
		default:
			r = strings.Contains(a, b)
		}
		f.env[x] = Sc{c.Bool(r)}
		return true
	case "strings.TrimPrefix", "strings.TrimSuffix", "strings.TrimLeft", "strings.TrimRight", "strings.Trim":
		a, ok1 := str(0)
		b, ok2 := str(1)
		if !ok1 || !ok2 {
			return false
		}
		switch name {
		case "strings.TrimPrefix":
			f.env[x] = m.mkStr(strings.TrimPrefix(a, b))
		case "strings.TrimSuffix":
			f.env[x] = m.mkStr(strings.TrimSuffix(a, b))
		case "strings.TrimLeft":
			f.env[x] = m.mkStr(strings.TrimLeft(a, b))
		case "strings.TrimRight":
			f.env[x] = m.mkStr(strings.TrimRight(a, b))
		default:
			f.env[x] = m.mkStr(strings.Trim(a, b))
		}
		return true
	case "strings.Split":
		a, ok1 := str(0)
		b, ok2 := str(1)
		if !ok1 || !ok2 {
			return false
		}
		parts := strings.Split(a, b)
		arr := ArrayV{n: len(parts), def: StrV{}, elems: map[int]Value{}}
		for i, p := range parts {
			arr.elems[i] = m.mkStr(p)
		}
		id := s.alloc(arr)
		f.env[x] = SliceV{obj: id, len: len(parts), cap: len(parts)}
		return true
	case "path/filepath.Join":
		sl, ok := args[0].(SliceV)
		if !ok {
			return false
		}
		var parts []string
		for i := 0; i < sl.len; i++ {
			g, ok := m.toGo(s, m.sliceElem(s, sl, i), types.Typ[types.String])
			if !ok {
				return false
			}
			parts = append(parts, g.(string))
		}
		f.env[x] = m.mkStr(filepath.Join(parts...))
		return true
	case "strings.Count":
		a, ok1 := str(0)
		b, ok2 := str(1)
		if !ok1 || !ok2 {
			return false
		}
		f.env[x] = Sc{c.BV(uint64(strings.Count(a, b)), 64)}
		return true
	case "strings.Index", "strings.LastIndex":
		a, ok1 := str(0)
		b, ok2 := str(1)
		if !ok1 || !ok2 {
			return false
		}
		r := strings.Index(a, b)
		if name == "strings.LastIndex" {
			r = strings.LastIndex(a, b)
		}
		f.env[x] = Sc{c.BV(uint64(int64(r)), 64)}
		return true
	case "strconv.ParseInt", "strconv.ParseUint", "strconv.Atoi":
		a, ok := str(0)
		if !ok {
			return false
		}
		base, bits := 10, 64
		if name != "strconv.Atoi" {
			b1, ok1 := args[1].(Sc)
			b2, ok2 := args[2].(Sc)
			if !ok1 || !ok2 || !b1.t.konst || !b2.t.konst {
				return false
			}
			base, bits = int(b1.t.cv), int(b2.t.cv)
		}
		var v uint64
		var err error
		switch name {
		case "strconv.ParseUint":
			v, err = strconv.ParseUint(a, base, bits)
		case "strconv.ParseInt":
			var sv int64
			sv, err = strconv.ParseInt(a, base, bits)
			v = uint64(sv)
		default:
			var iv int
			iv, err = strconv.Atoi(a)
			v = uint64(int64(iv))
		}
		var ev Value = IfaceV{}
		if err != nil {
			m.nerr++
			ev = IfaceV{typ: x.Type().(*types.Tuple).At(1).Type(), v: &ErrV{id: m.nerr, msg: err.Error()}}
		}
		f.env[x] = TupleV{[]Value{Sc{c.BV(v, 64)}, ev}}
		return true
	case "strconv.Itoa", "strconv.FormatInt", "strconv.FormatUint":
		a, ok := args[0].(Sc)
		if !ok || !a.t.konst {
			return false
		}
		switch name {
		case "strconv.FormatUint":
			f.env[x] = m.mkStr(strconv.FormatUint(a.t.cv, int(sc(args[1]).cv)))
		case "strconv.FormatInt":
			f.env[x] = m.mkStr(strconv.FormatInt(int64(a.t.cv), int(sc(args[1]).cv)))
		default:
			f.env[x] = m.mkStr(strconv.Itoa(int(int64(a.t.cv))))
		}
		return true
	case "net/url.PathEscape", "net/url.QueryEscape":
		a, ok := str(0)
		if !ok {
			return false
		}
		if name == "net/url.QueryEscape" {
			f.env[x] = m.mkStr(url.QueryEscape(a))
		} else {
			f.env[x] = m.mkStr(urlPathEscape(a))
		}
		return true
	case "net/url.PathUnescape", "net/url.QueryUnescape":
		a, ok := str(0)
		if !ok {
			return false
		}
		r, err := urlPathUnescape(a)
		if name == "net/url.QueryUnescape" {
			r, err = url.QueryUnescape(a)
		}
		var ev Value = IfaceV{}
		if err != nil {
			m.nerr++
			ev = IfaceV{typ: x.Type().(*types.Tuple).At(1).Type(), v: &ErrV{id: m.nerr, msg: err.Error()}}
		}
		f.env[x] = TupleV{[]Value{m.mkStr(r), ev}}
		return true
	}
	return false
}

func urlPathEscape(a string) string            { return url.PathEscape(a) }
func urlPathUnescape(a string) (string, error) { return url.PathUnescape(a) }
