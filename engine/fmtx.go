package main

import (
	"fmt"
	"go/types"
	"strings"

	"golang.org/x/tools/go/ssa"
)

// NumStr is the content of an opaque string/[]byte that renders one symbolic integer with "%d".
type NumStr struct{ t *Term }

// toGo converts a fully concrete value to a Go value for native formatting.
func (m *Machine) toGo(s *State, v Value, t types.Type) (any, bool) {
	switch x := v.(type) {
	case Sc:
		if !x.t.konst {
			return nil, false
		}
		w, signed, _ := intWidth(t)
		if w == 0 || x.t.w == 0 {
			return x.t.cv != 0, true
		}
		if signed {
			return sext(x.t.cv, x.t.w), true
		}
		return x.t.cv, true
	case StrV:
		if x.box != nil {
			return nil, false
		}
		b := make([]byte, len(x.b))
		for i, tm := range x.b {
			if !tm.konst {
				return nil, false
			}
			b[i] = byte(tm.cv)
		}
		return string(b), true
	case SliceV:
		if x.obj != 0 {
			if _, isBox := s.heap[x.obj].v.(BoxV); isBox {
				return nil, false
			}
		}
		b := make([]byte, x.len)
		for i := 0; i < x.len; i++ {
			e, ok := m.sliceElem(s, x, i).(Sc)
			if !ok || !e.t.konst || e.t.w != 8 {
				return nil, false
			}
			b[i] = byte(e.t.cv)
		}
		return b, true
	case IfaceV:
		if x.typ == nil {
			return nil, true
		}
		if e, ok := x.v.(*ErrV); ok {
			return fmt.Errorf("%s", e.msg), true
		}
		return m.toGo(s, x.v, x.typ)
	case *ErrV:
		return fmt.Errorf("%s", x.msg), true
	case Ptr:
		if x.obj == 0 {
			return nil, true
		}
		return nil, false
	}
	return nil, false
}

func (m *Machine) mkStr(sv string) StrV {
	bs := make([]*Term, len(sv))
	for i := 0; i < len(sv); i++ {
		bs[i] = m.ctx.BV(uint64(sv[i]), 8)
	}
	return StrV{b: bs}
}

// variadic returns the elements of a ...any argument.
func (m *Machine) variadic(s *State, v Value) []IfaceV {
	sl, ok := v.(SliceV)
	if !ok || sl.obj == 0 {
		return nil
	}
	out := make([]IfaceV, sl.len)
	for i := range out {
		out[i], _ = m.sliceElem(s, sl, i).(IfaceV)
	}
	return out
}

// fmtIntrinsic handles Sprintf / Sprint / Sscanf / Errorf-style formatting.
func (m *Machine) fmtIntrinsic(s *State, f *Frame, x *ssa.Call, name string, args []Value) bool {
	switch name {
	case "fmt.Sprintf":
		format, ok := m.toGo(s, args[0], types.Typ[types.String])
		if !ok {
			s.fail("unsupported", "Sprintf with symbolic format")
			return true
		}
		va := m.variadic(s, args[1])
		goArgs := make([]any, len(va))
		allConcrete := true
		for i, a := range va {
			g, ok := m.toGo(s, a, nil)
			if !ok {
				allConcrete = false
			}
			goArgs[i] = g
		}
		if allConcrete {
			f.env[x] = m.mkStr(fmt.Sprintf(format.(string), goArgs...))
			return true
		}
		if format.(string) == "%d" && len(va) == 1 {
			if sc0, ok := va[0].v.(Sc); ok {
				_, signed, _ := intWidth(va[0].typ)
				t := sc0.t
				if t.w < 64 {
					if signed {
						t = m.ctx.SignExt(t, 64)
					} else {
						t = m.ctx.ZeroExt(t, 64)
					}
				}
				m.stubs["fmt.Sprintf(\"%d\", symbolic) as opaque numeric string"]++
				f.env[x] = StrV{box: NumStr{t}}
				return true
			}
		}
		if m.lenientFmt {
			m.stubs["fmt.Sprintf with symbolic arguments in a message/label: empty string"]++
			f.env[x] = StrV{}
			return true
		}
		s.fail("unsupported", "Sprintf "+format.(string)+" with symbolic arguments")
		return true
	case "fmt.Sprint":
		va := m.variadic(s, args[0])
		goArgs := make([]any, len(va))
		for i, a := range va {
			g, ok := m.toGo(s, a, nil)
			if !ok {
				f.env[x] = StrV{}
				m.stubs["fmt.Sprint with symbolic arguments: empty string"]++
				return true
			}
			goArgs[i] = g
		}
		f.env[x] = m.mkStr(fmt.Sprint(goArgs...))
		return true
	case "fmt.Sscanf":
		format, ok := m.toGo(s, args[1], types.Typ[types.String])
		va := m.variadic(s, args[2])
		if !ok || format.(string) != "%d" || len(va) != 1 {
			s.fail("unsupported", "Sscanf format")
			return true
		}
		dst, ok := va[0].v.(Ptr)
		if !ok {
			s.fail("unsupported", "Sscanf destination")
			return true
		}
		et := va[0].typ.(*types.Pointer).Elem()
		w, _, _ := intWidth(et)
		str := args[0].(StrV)
		errT := x.Type().(*types.Tuple).At(1).Type()
		if ns, ok := str.box.(NumStr); ok {
			t := ns.t
			if w < 64 {
				t = m.ctx.Extract(w-1, 0, t)
			}
			s.store(dst, Sc{t})
			f.env[x] = TupleV{[]Value{Sc{m.ctx.BV(1, 64)}, IfaceV{}}}
			return true
		}
		g, ok := m.toGo(s, str, types.Typ[types.String])
		if !ok {
			s.fail("unsupported", "Sscanf of symbolic string")
			return true
		}
		var n int64
		cnt, err := fmt.Sscanf(g.(string), "%d", &n)
		if err != nil {
			m.nerr++
			f.env[x] = TupleV{[]Value{Sc{m.ctx.BV(uint64(cnt), 64)}, IfaceV{typ: errT, v: &ErrV{id: m.nerr, msg: "sscanf: " + err.Error()}}}}
			return true
		}
		s.store(dst, Sc{m.ctx.BV(uint64(n), w)})
		f.env[x] = TupleV{[]Value{Sc{m.ctx.BV(1, 64)}, IfaceV{}}}
		return true
	case "fmt.Errorf", "github.com/pkg/errors.Errorf":
		m.nerr++
		msg := "errorf"
		if g, ok := m.toGo(s, args[0], types.Typ[types.String]); ok {
			msg = g.(string)
		}
		e := &ErrV{id: m.nerr, msg: msg}
		// %w wrapping: keep the first error argument as cause
		for _, a := range m.variadic(s, args[1]) {
			if c, ok := a.v.(*ErrV); ok && strings.Contains(msg, "%w") {
				e.cause = c
				break
			}
		}
		f.env[x] = IfaceV{typ: x.Type(), v: e}
		return true
	}
	return false
}
