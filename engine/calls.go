package main

import (
	"os"
	"regexp"
	"fmt"
	"go/types"
	"strings"

	"golang.org/x/tools/go/ssa"
)

func (m *Machine) pushFrame(s *State, fn *ssa.Function, args []Value, free []Value, dest ssa.Value) {
	if fn.Blocks == nil {
		chain := ""
		for i := len(s.frames) - 1; i >= 0 && i >= len(s.frames)-4; i-- {
			chain += " <- " + s.frames[i].fn.String()
		}
		s.fail("unsupported", "no body: "+fn.String()+chain)
		return
	}
	m.funcsSeen[fn.String()]++
	if ts := os.Getenv("SPIKE_TRACE_SCHED"); ts != "" && fmt.Sprint(s.sched) == ts {
		fmt.Printf("  [g%d depth %d] -> %s\n", s.cur, len(s.frames), fn.String())
	}
	fr := &Frame{fn: fn, env: map[ssa.Value]Value{}, blk: fn.Blocks[0], dest: dest, loops: map[int]int{}}
	for i, p := range fn.Params {
		fr.env[p] = args[i]
	}
	for i, fv := range fn.FreeVars {
		fr.env[fv] = free[i]
	}
	s.frames = append(s.frames, fr)
}

func (m *Machine) freshScalar(s *State, name string, t types.Type) Value {
	w, _, ok := intWidth(t)
	if !ok {
		panic("fresh of " + t.String())
	}
	v := m.ctx.Var(name, w)
	s.nd = append(s.nd, ndRec{name, v})
	return Sc{v}
}

// internalScalar is a fresh symbol that is not a harness nondet (crc results, clock readings...).
func (m *Machine) internalScalar(s *State, name string, t types.Type) Value {
	w, _, ok := intWidth(t)
	if !ok {
		panic("fresh of " + t.String())
	}
	return Sc{m.ctx.Var(name, w)}
}

func strConst(v Value) string {
	sv := v.(StrV)
	b := make([]byte, len(sv.b))
	for i, t := range sv.b {
		if !t.konst {
			panic("symbolic string where constant needed")
		}
		b[i] = byte(t.cv)
	}
	return string(b)
}

func (m *Machine) bytesOf(s *State, v Value) []*Term {
	switch x := v.(type) {
	case StrV:
		return x.b
	case SliceV:
		out := make([]*Term, x.len)
		for i := range out {
			out[i] = sc(m.sliceElem(s, x, i))
		}
		return out
	}
	panic(fmt.Sprintf("bytesOf %T", v))
}

// cmpBytes builds the term for bytes.Compare on two concrete-length byte vectors (int result, 64 bit).
func (m *Machine) cmpBytes(a, b []*Term) *Term {
	c := m.ctx
	n := len(a)
	if len(b) < n {
		n = len(b)
	}
	var tail *Term
	switch {
	case len(a) < len(b):
		tail = c.BV(^uint64(0), 64)
	case len(a) > len(b):
		tail = c.BV(1, 64)
	default:
		tail = c.BV(0, 64)
	}
	res := tail
	for i := n - 1; i >= 0; i-- {
		res = c.Ite(c.Cmp("bvult", a[i], b[i]), c.BV(^uint64(0), 64),
			c.Ite(c.Cmp("bvugt", a[i], b[i]), c.BV(1, 64), res))
	}
	return res
}

func (m *Machine) execCall(s *State, f *Frame, x *ssa.Call) []*State {
	cc := x.Common()
	var args []Value
	for _, a := range cc.Args {
		args = append(args, s.get(a))
	}
	var fnv Value
	if _, isB := cc.Value.(*ssa.Builtin); !isB {
		fnv = s.get(cc.Value)
	}
	return m.callValue(s, f, x, cc, fnv, args)
}

// callValue performs a call described by cc with already evaluated function value / receiver fnv and args.
// x is the instruction receiving the result (nil for deferred calls).
func (m *Machine) callValue(s *State, f *Frame, x *ssa.Call, cc *ssa.CallCommon, fnv Value, args []Value) []*State {
	c := m.ctx
	setRes := func(v Value) {
		if x != nil {
			f.env[x] = v
		}
	}
	var dest ssa.Value
	var resType types.Type = cc.Signature().Results()
	if x != nil {
		dest = x
		resType = x.Type()
	}
	_ = resType
	if m.tolerant && (cc.IsInvoke() || cc.StaticCallee() == nil) {
		setRes(Opaque{"shallow-init dynamic call"})
		return nil
	}
	if cc.IsInvoke() && ignoredPkg(typePkg(cc.Value.Type())) {
		setRes(m.zeroOrOpaque(resType))
		return nil
	}
	if callee := cc.StaticCallee(); callee != nil {
		var pp *types.Package
		if callee.Pkg != nil {
			pp = callee.Pkg.Pkg
		} else if callee.Origin() != nil && callee.Origin().Pkg != nil {
			pp = callee.Origin().Pkg.Pkg
		} else if callee.Signature.Recv() != nil {
			pp = typePkg(callee.Signature.Recv().Type())
		}
		if ignoredPkg(pp) {
			setRes(m.zeroOrOpaque(resType))
			return nil
		}
	}
	if cc.IsInvoke() {
		recv := fnv.(IfaceV)
		if recv.typ == nil {
			m.panicState(s, "nil interface call", f, x)
			return nil
		}
		if ev, ok := recv.v.(*ErrV); ok && cc.Method.Name() == "Error" {
			_ = ev
			setRes(StrV{})
			return nil
		}
		fn := m.prog.MethodValue(m.prog.MethodSets.MethodSet(recv.typ).Lookup(cc.Method.Pkg(), cc.Method.Name()))
		if fn == nil {
			s.fail("unsupported", "cannot resolve "+cc.Method.Name())
			return nil
		}
		if rep, ok := m.replace[fn.String()]; ok {
			if rf := m.hpkg.Func(rep); rf != nil {
				m.stubs["engine-side replacement of "+fn.String()+" by harness model "+rep]++
				m.pushFrame(s, rf, append([]Value{recv.v}, args...), nil, dest)
				return nil
			}
		}
		if x != nil && !m.initPkgs[fnPkgPath(fn)] {
			// interface call that lands on a library method with an intrinsic model
			if r, handled := m.intrinsic(s, f, x, fn.String(), fn, append([]Value{recv.v}, args...)); handled {
				return r
			}
		}
		m.pushFrame(s, fn, append([]Value{recv.v}, args...), nil, dest)
		return nil
	}
	switch callee := cc.Value.(type) {
	case *ssa.Builtin:
		switch callee.Name() {
		case "len":
			switch a := args[0].(type) {
			case SliceV:
				setRes(Sc{c.BV(uint64(a.len), 64)})
			case StrV:
				setRes(Sc{c.BV(uint64(len(a.b)), 64)})
			case Ptr:
				if a.obj == 0 {
					setRes(Sc{c.BV(0, 64)})
				} else if mv, ok := s.load(a).(MapV); ok {
					setRes(Sc{c.BV(uint64(len(mv.e)), 64)})
				} else if ch, ok := s.load(a).(ChanV); ok {
					setRes(Sc{c.BV(uint64(len(ch.buf)), 64)})
				} else {
					s.fail("unsupported", "len of chan")
				}
			default:
				s.fail("unsupported", fmt.Sprintf("len of %T", a))
			}
		case "cap":
			setRes(Sc{c.BV(uint64(args[0].(SliceV).cap), 64)})
		case "delete":
			return m.mapDelete(s, args[0].(Ptr), args[1])
		case "close":
			p := args[0].(Ptr)
			ch := s.load(p).(ChanV)
			if ch.closed {
				m.panicState(s, "close of closed channel", f, f.blk.Instrs[f.idx-1])
				return nil
			}
			ch.closed = true
			s.store(p, ch)
		case "copy":
			dst := args[0].(SliceV)
			src := m.bytesOfAny(s, args[1])
			n := dst.len
			if len(src) < n {
				n = len(src)
			}
			for i := 0; i < n; i++ {
				s.store(Ptr{obj: dst.obj, path: append(append([]int(nil), dst.path...), dst.off+i)}, src[i])
			}
			setRes(Sc{c.BV(uint64(n), 64)})
		case "clear":
			switch a := args[0].(type) {
			case Ptr:
				if a.obj != 0 {
					if _, ok := s.load(a).(MapV); ok {
						s.store(a, MapV{})
					}
				}
			case SliceV:
				et := cc.Args[0].Type().Underlying().(*types.Slice).Elem()
				for i := 0; i < a.len; i++ {
					s.store(Ptr{obj: a.obj, path: append(append([]int(nil), a.path...), a.off+i)}, m.zero(et))
				}
			}
		case "ssa:wrapnilchk":
			if p, ok := args[0].(Ptr); ok && p.obj == 0 {
				m.panicState(s, "nil dereference (method value wrapper)", f, f.blk.Instrs[f.idx-1])
				return nil
			}
			setRes(args[0])
		case "min", "max":
			_, signed, _ := intWidth(cc.Args[0].Type())
			acc := sc(args[0])
			for _, a := range args[1:] {
				t := sc(a)
				op := "bvult"
				if signed {
					op = "bvslt"
				}
				lt := c.Cmp(op, t, acc)
				if callee.Name() == "max" {
					lt = c.Cmp(op, acc, t)
				}
				acc = c.Ite(lt, t, acc)
			}
			setRes(Sc{acc})
		case "append":
			setRes(m.doAppend(s, x.Type(), args[0].(SliceV), m.bytesOfAny(s, args[1])))
		default:
			s.fail("unsupported", "builtin "+callee.Name())
		}
		return nil
	case *ssa.Function:
		name := callee.String()
		if strings.HasSuffix(name, ").ReturnToVTPool") || strings.HasSuffix(name, ").ResetVT") {
			if p, ok := args[0].(Ptr); ok && p.obj != 0 {
				if pt, ok := callee.Signature.Recv().Type().(*types.Pointer); ok {
					s.store(p, m.zero(pt.Elem()))
				}
			}
			return nil
		}
		if strings.HasSuffix(name, ").UnmarshalVT") {
			sl := args[1].(SliceV)
			want := callee.Signature.Recv().Type().String()
			if sl.obj != 0 {
				if bx, ok := s.heap[sl.obj].v.(BoxV); ok && bx.typ == want {
					// vtprotobuf does NOT reset the receiver: the decoded message is merged into it
					cur, ok1 := s.load(args[0].(Ptr)).(StructV)
					nv, ok2 := bx.v.(StructV)
					if pt, ok := callee.Signature.Recv().Type().(*types.Pointer); ok && ok1 && ok2 {
						s.store(args[0].(Ptr), m.pbMergeStruct(s, pt.Elem(), cur, nv))
					} else {
						s.store(args[0].(Ptr), bx.v)
					}
					setRes(IfaceV{})
					return nil
				}
			}
			if sl.len == 0 {
				// an empty byte string is a valid encoding of the all-default message: merging it changes nothing
				setRes(IfaceV{})
				return nil
			}
			// bytes that were not produced by marshalling this message type: a parse error
			m.nerr++
			m.stubs["UnmarshalVT of bytes that are not a marshalled message of that type: error"]++
			setRes(IfaceV{typ: types.Universe.Lookup("error").Type(), v: &ErrV{id: m.nerr, msg: "proto: cannot parse"}})
			return nil
		}
		if rep, ok := m.replace[name]; ok {
			rf := m.hpkg.Func(rep)
			if rf == nil {
				s.fail("unsupported", "replacement function not found: "+rep)
				return nil
			}
			m.stubs["engine-side replacement of "+name+" by harness model "+rep]++
			m.pushFrame(s, rf, args, nil, dest)
			return nil
		}
		if handled, succ := m.syncBlocking(s, f, name, args); handled {
			return succ
		}
		if m.syncIntrinsic(s, f, dest, name, args) {
			return nil
		}
		if x != nil {
			if r, handled := m.intrinsic(s, f, x, name, callee, args); handled {
				return r
			}
		}
		if m.tolerant { // shallow init: only helpers of the module under test are entered
			if callee.Pkg != nil && strings.HasPrefix(callee.Pkg.Pkg.Path(), "github.com/oxia-db/oxia") && callee.Blocks != nil {
				m.pushFrame(s, callee, args, nil, dest)
				return nil
			}
			setRes(Opaque{"shallow-init call " + name})
			return nil
		}
		if m.summarize[name] && x != nil {
			return m.summarizedCall(s, f, x, callee, args)
		}
		m.pushFrame(s, callee, args, nil, dest)
		return nil
	default:
		if fv, ok := fnv.(FuncV); ok && fv.noop {
			return nil
		}
		fv, ok := fnv.(FuncV)
		if !ok || fv.fn == nil {
			m.panicState(s, "nil func call", f, f.blk.Instrs[f.idx-1])
			return nil
		}
		if len(fv.free) == 0 && fv.fn.Blocks != nil || len(fv.free) == 0 {
			// a function value that denotes an intrinsic (e.g. timeFunc: time.Now)
			dname := fv.fn.String()
			if m.syncIntrinsic(s, f, dest, dname, args) {
				return nil
			}
			if x != nil {
				if r, handled := m.intrinsic(s, f, x, dname, fv.fn, args); handled {
					return r
				}
			}
		}
		if x != nil && len(fv.free) == 0 && m.summarize[fv.fn.String()] {
			return m.summarizedCall(s, f, x, fv.fn, args)
		}
		m.pushFrame(s, fv.fn, args, fv.free, dest)
		return nil
	}
}

func (m *Machine) bytesOfAny(s *State, v Value) []Value {
	switch x := v.(type) {
	case StrV:
		out := make([]Value, len(x.b))
		for i, t := range x.b {
			out[i] = Sc{t}
		}
		return out
	case SliceV:
		out := make([]Value, x.len)
		for i := range out {
			out[i] = m.sliceElem(s, x, i)
		}
		return out
	}
	panic(fmt.Sprintf("bytesOfAny %T", v))
}

func (m *Machine) doAppend(s *State, t types.Type, dst SliceV, src []Value) Value {
	et := t.Underlying().(*types.Slice).Elem()
	if dst.obj != 0 && dst.len+len(src) <= dst.cap {
		for i, v := range src {
			s.store(Ptr{obj: dst.obj, path: append(append([]int(nil), dst.path...), dst.off+dst.len+i)}, v)
		}
		return SliceV{obj: dst.obj, path: dst.path, off: dst.off, len: dst.len + len(src), cap: dst.cap}
	}
	ncap := (dst.len + len(src)) * 2
	if ncap == 0 {
		ncap = 1
	}
	arr := ArrayV{n: ncap, def: m.zero(et), elems: map[int]Value{}}
	for i := 0; i < dst.len; i++ {
		arr.elems[i] = m.sliceElem(s, dst, i)
	}
	for i, v := range src {
		arr.elems[dst.len+i] = v
	}
	id := s.alloc(arr)
	return SliceV{obj: id, len: dst.len + len(src), cap: ncap}
}

// intrinsic handles modelled functions. Returns (successors, handled).
func (m *Machine) intrinsic(s *State, f *Frame, x *ssa.Call, name string, callee *ssa.Function, args []Value) ([]*State, bool) {
	c := m.ctx
	short := name
	if i := strings.LastIndex(name, "."); i >= 0 && !strings.HasPrefix(name, "(") {
		short = name[i+1:]
	}
	switch {
	case short == "vByte" || short == "vUint16" || short == "vInt32" || short == "vUint32" || short == "vInt64" || short == "vUint64" || short == "vBool" || short == "vInt":
		f.env[x] = m.freshScalar(s, strConst(args[0]), x.Type())
		return nil, true
	case short == "vBytes":
		n := sc(args[1])
		if !n.konst {
			s.fail("unsupported", "vBytes symbolic len")
			return nil, true
		}
		nm := strConst(args[0])
		arr := ArrayV{n: int(n.cv), def: Sc{c.BV(0, 8)}, elems: map[int]Value{}}
		for i := 0; i < int(n.cv); i++ {
			arr.elems[i] = m.freshScalar(s, nm, types.Typ[types.Uint8])
		}
		id := s.alloc(arr)
		f.env[x] = SliceV{obj: id, len: int(n.cv), cap: int(n.cv)}
		return nil, true
	case short == "vAssume":
		cond := sc(args[0])
		yes, _ := m.forkOnly(s, cond)
		if yes == nil {
			s.fail("assume-false", "")
		}
		return nil, true
	case short == "vAssert":
		id := strConst(args[0])
		cond := sc(args[1])
		m.assertsChecked++
		neg := c.Not(cond)
		if neg.konst && neg.cv == 0 {
			return nil, true
		}
		r, _ := c.Check(append(append([]*Term(nil), s.pc...), neg), nil)
		if m.xcheckEvery > 0 && (r == "sat" || r == "unsat") && m.assertsChecked%m.xcheckEvery == 0 && c.xcheck.sampled < m.xcheckMax {
			c.CrossCheck(append(append([]*Term(nil), s.pc...), neg), r, m.xcheckDir, fmt.Sprintf("%s-%d", m.xcheckTag, m.assertsChecked))
		}
		if r == "sat" {
			bad := s.clone()
			bad.pc = append(bad.pc, neg)
			bad.fail("assert", id)
			if cond.konst || !s.feasible(cond) {
				// the assertion fails on every valuation of this path
				s.fail("infeasible", "")
				return []*State{bad}, true
			}
			s.pc = append(s.pc, cond)
			return []*State{bad, s}, true
		} else if r != "unsat" {
			s.fail("unknown", "assert "+id)
		}
		return nil, true
	case short == "vObserve":
		s.obs = append(s.obs, obsRec{strConst(args[0]), []*Term{sc(args[1])}})
		return nil, true
	case short == "vObserveB":
		s.obs = append(s.obs, obsRec{strConst(args[0]), m.bytesOf(s, args[1])})
		return nil, true
	case short == "vKnown":
		id := strConst(args[0])
		cond := sc(args[1])
		yes, no := m.forkOn(s, cond)
		var out []*State
		if yes != nil {
			yes.known = append(yes.known, id)
			yes.top().env[x] = Sc{c.Bool(true)}
			out = append(out, yes)
		}
		if no != nil {
			no.top().env[x] = Sc{c.Bool(false)}
			out = append(out, no)
		}
		if len(out) == 1 && out[0] == s {
			return nil, true
		}
		return out, true
	case strings.HasSuffix(name, "FromVTPool"):
		et := x.Type().(*types.Pointer).Elem()
		f.env[x] = Ptr{obj: s.alloc(m.zero(et))}
		return nil, true
	case strings.HasSuffix(name, ").ReturnToVTPool") || strings.HasSuffix(name, ").ResetVT") ||
		(strings.HasSuffix(name, ").Reset") && strings.HasPrefix(name, "(*github.com/oxia-db/oxia/proto.")):
		// generated protobuf Reset(): the message becomes the zero message
		if p, ok := args[0].(Ptr); ok && p.obj != 0 {
			if pt, ok := callee.Signature.Recv().Type().(*types.Pointer); ok {
				s.store(p, m.zero(pt.Elem()))
			}
		}
		return nil, true
	case name == "(github.com/edsrzf/mmap-go.MMap).Flush" || name == "(*github.com/edsrzf/mmap-go.MMap).Unmap":
		m.stubs["mmap Flush/Unmap: no-op returning nil (durability = the synced-prefix contract)"]++
		f.env[x] = IfaceV{}
		return nil, true
	case name == "regexp.MustCompile":
		pat, ok := m.toGo(s, args[0], types.Typ[types.String])
		if !ok {
			s.fail("unsupported", "regexp with symbolic pattern")
			return nil, true
		}
		f.env[x] = Ptr{obj: s.alloc(RegexV{pat.(string)})}
		return nil, true
	case name == "(*regexp.Regexp).FindStringSubmatch":
		rp := args[0].(Ptr)
		rv, ok := s.load(rp).(RegexV)
		str, ok2 := m.toGo(s, args[1], types.Typ[types.String])
		if !ok || !ok2 {
			s.fail("unsupported", "regexp on symbolic string")
			return nil, true
		}
		m.stubs["regexp on concrete strings: evaluated natively"]++
		parts := regexp.MustCompile(rv.pat).FindStringSubmatch(str.(string))
		if parts == nil {
			f.env[x] = SliceV{}
			return nil, true
		}
		arr := ArrayV{n: len(parts), def: StrV{}, elems: map[int]Value{}}
		for i, p := range parts {
			arr.elems[i] = m.mkStr(p)
		}
		f.env[x] = SliceV{obj: s.alloc(arr), len: len(parts), cap: len(parts)}
		return nil, true
	case name == "encoding/json.Marshal":
		v := args[0].(IfaceV)
		var content Value = v.v
		typ := ""
		if v.typ != nil {
			typ = "json:" + v.typ.String()
			if p, ok := v.v.(Ptr); ok && p.obj != 0 {
				if pt, ok := v.typ.(*types.Pointer); ok {
					content = s.load(p)
					typ = "json:" + pt.Elem().String()
				}
			}
		}
		m.stubs["encoding/json Marshal/Unmarshal as box"]++
		id := s.alloc(BoxV{v: content, typ: typ})
		f.env[x] = TupleV{[]Value{SliceV{obj: id, len: 1, cap: 1}, IfaceV{}}}
		return nil, true
	case name == "encoding/json.Unmarshal":
		sl := args[0].(SliceV)
		dst := args[1].(IfaceV)
		m.stubs["encoding/json Marshal/Unmarshal as box"]++
		if pt, ok := dst.typ.(*types.Pointer); ok && sl.obj != 0 {
			if bx, ok := s.heap[sl.obj].v.(BoxV); ok && bx.typ == "json:"+pt.Elem().String() {
				nv := bx.v
				// `omitempty`: a zero-valued field tagged omitempty is absent from the document, so decoding leaves
				// whatever the destination already holds in that field
				if st, isS := pt.Elem().Underlying().(*types.Struct); isS {
					if bs, ok1 := bx.v.(StructV); ok1 {
						if cur, ok2 := s.load(dst.v.(Ptr)).(StructV); ok2 && len(cur.f) == st.NumFields() && len(bs.f) == st.NumFields() {
							out := StructV{f: append([]Value(nil), bs.f...)}
							for i := 0; i < st.NumFields(); i++ {
								if !strings.Contains(st.Tag(i), "omitempty") {
									continue
								}
								if m.isZeroValue(bs.f[i]) {
									out.f[i] = cur.f[i]
									m.stubs["encoding/json: omitempty field absent from the document keeps the destination's value"]++
								} else if bv, okb := bs.f[i].(Sc); okb && bv.t != nil && !bv.t.konst {
									// symbolic scalar: absent exactly when it is zero / false
									if cv, okc := cur.f[i].(Sc); okc && cv.t != nil && cv.t.w == bv.t.w {
										var isZero *Term
										if bv.t.w == 0 {
											isZero = c.Not(bv.t)
										} else {
											isZero = c.Cmp("=", bv.t, c.BV(0, bv.t.w))
										}
										out.f[i] = Sc{c.Ite(isZero, cv.t, bv.t)}
										m.stubs["encoding/json: omitempty field absent from the document keeps the destination's value"]++
									}
								}
							}
							nv = out
						}
					}
				}
				s.store(dst.v.(Ptr), nv)
				f.env[x] = IfaceV{}
				return nil, true
			}
		}
		m.nerr++
		f.env[x] = IfaceV{typ: x.Type(), v: &ErrV{id: m.nerr, msg: "json: cannot parse"}}
		return nil, true
	case name == "google.golang.org/protobuf/proto.Unmarshal":
		sl := args[0].(SliceV)
		msg := args[1].(IfaceV)
		m.stubs["protobuf Marshal/Unmarshal as box"]++
		if sl.obj != 0 {
			if bx, ok := s.heap[sl.obj].v.(BoxV); ok && bx.typ == msg.typ.String() {
				if pt, isP := msg.typ.(*types.Pointer); isP && m.pbInvalidUTF8(s, pt.Elem(), bx.v, 0) {
					// protobuf-go validates proto3 string fields (vtprotobuf, which produced these bytes, does not)
					m.nerr++
					m.stubs["proto.Unmarshal: string field with invalid UTF-8 refused"]++
					f.env[x] = IfaceV{typ: x.Type(), v: &ErrV{id: m.nerr, msg: "proto: string field contains invalid UTF-8"}}
					return nil, true
				}
				s.store(msg.v.(Ptr), bx.v)
				f.env[x] = IfaceV{}
				return nil, true
			}
		}
		m.nerr++
		f.env[x] = IfaceV{typ: x.Type(), v: &ErrV{id: m.nerr, msg: "proto: cannot parse"}}
		return nil, true
	case name == "google.golang.org/protobuf/proto.Marshal" || name == "(google.golang.org/protobuf/proto.MarshalOptions).Marshal":
		if name != "google.golang.org/protobuf/proto.Marshal" {
			args = args[1:] // receiver: the options
		}
		msg := args[0].(IfaceV)
		if pt, isP := msg.typ.(*types.Pointer); isP && m.pbInvalidUTF8(s, pt.Elem(), s.load(msg.v.(Ptr)), 0) {
			m.nerr++
			m.stubs["proto.Marshal: string field with invalid UTF-8 refused"]++
			errT := x.Type().(*types.Tuple).At(1).Type()
			f.env[x] = TupleV{[]Value{SliceV{}, IfaceV{typ: errT, v: &ErrV{id: m.nerr, msg: "proto: string field contains invalid UTF-8"}}}}
			return nil, true
		}
		id := s.alloc(BoxV{v: s.load(msg.v.(Ptr)), typ: msg.typ.String()})
		m.stubs["protobuf Marshal/Unmarshal as box"]++
		f.env[x] = TupleV{[]Value{SliceV{obj: id, len: 1, cap: 1}, IfaceV{}}}
		return nil, true
	case name == "google.golang.org/protobuf/proto.Clone":
		msg := args[0].(IfaceV)
		id := s.alloc(s.load(msg.v.(Ptr)))
		f.env[x] = IfaceV{typ: msg.typ, v: Ptr{obj: id}}
		return nil, true
	case strings.HasSuffix(name, ").MarshalVT"):
		m.stubs["protobuf Marshal/Unmarshal as box"]++
		id := s.alloc(BoxV{v: s.load(args[0].(Ptr)), typ: callee.Signature.Recv().Type().String()})
		f.env[x] = TupleV{[]Value{SliceV{obj: id, len: 1, cap: 1}, IfaceV{}}}
		return nil, true
	case strings.HasPrefix(name, "time.") || strings.HasPrefix(name, "(time.") || strings.HasPrefix(name, "(*time."):
		if r, ok := m.timeIntrinsic(s, f, x, name, args); ok {
			return r, true
		}
	case short == "vSettle":
		// native-only pause that biases the Go scheduler towards the interesting interleaving when a
		// counterexample is replayed; the symbolic run explores the schedules at blocking operations anyway
		return nil, true
	case short == "vSleep":
		// "long enough for the other goroutines to park": a schedule point
		return m.schedule(s, true), true
	case short == "vYield":
		s.yields = append(s.yields, strConst(args[0]))
		return m.schedule(s, true), true
	case short == "vChoice":
		n := sc(args[1])
		v := m.freshScalar(s, strConst(args[0]), x.Type())
		f.env[x] = v
		s.pc = append(s.pc, c.Cmp("bvsge", sc(v), c.BV(0, 64)), c.Cmp("bvslt", sc(v), n))
		return nil, true
	case name == "google.golang.org/protobuf/proto.Equal":
		m.stubs["proto.Equal as structural equality of the message values"]++
		f.env[x] = Sc{m.deepEqual(s, args[0], args[1], 0)}
		return nil, true
	case name == "reflect.DeepEqual":
		f.env[x] = Sc{m.deepEqual(s, args[0], args[1], 0)}
		return nil, true
	case strings.HasPrefix(name, "(*sync.Map)."):
		if hf := m.hpkg.Func("zzSyncMap" + strings.TrimPrefix(name, "(*sync.Map).")); hf != nil {
			m.stubs["sync.Map: association-list model in the harness runtime"]++
			m.pushFrame(s, hf, args, nil, x)
			return nil, true
		}
	case name == "context.WithCancel" || name == "context.WithTimeout" || name == "context.WithDeadline":
		// cancellable contexts: model defined in the harness runtime (deadlines never fire by themselves)
		m.stubs["context.WithCancel/WithTimeout: model context, deadlines never fire"]++
		m.pushFrame(s, m.hpkg.Func("zzWithCancel"), args[:1], nil, x)
		return nil, true
	case name == "context.WithValue":
		m.stubs["context.WithValue: model context in the harness runtime"]++
		m.pushFrame(s, m.hpkg.Func("zzWithValue"), args, nil, x)
		return nil, true
	case name == "time.After":
		id := s.alloc(ChanV{cap: 1, timer: true, buf: []Value{m.zero(x.Type().Underlying().(*types.Chan).Elem())}})
		f.env[x] = Ptr{obj: id}
		return nil, true
	case name == "go.uber.org/multierr.Append":
		a, b := args[0].(IfaceV), args[1].(IfaceV)
		switch {
		case a.typ == nil:
			f.env[x] = b
		case b.typ == nil:
			f.env[x] = a
		default:
			m.nerr++
			f.env[x] = IfaceV{typ: a.typ, v: &ErrV{id: m.nerr, msg: "multierr", cause: a.v.(*ErrV)}}
		}
		return nil, true
	case name == "math/rand.Intn":
		v := m.internalScalar(s, "rand", x.Type())
		f.env[x] = v
		s.pc = append(s.pc, c.Cmp("bvsge", sc(v), c.BV(0, 64)), c.Cmp("bvslt", sc(v), sc(args[0])))
		return nil, true
	case strings.HasPrefix(name, "strings.") || strings.HasPrefix(name, "net/url.") || strings.HasPrefix(name, "strconv.") || name == "path/filepath.Join":
		if m.nativeStringFn(s, f, x, name, args) {
			return nil, true
		}
	case short == "vSeqPart":
		// vSeqPart(key, prefix string, idx int) uint64: idx-th numeric suffix of a generated sequence key
		key := args[0].(StrV)
		idx := int(sc(args[2]).cv)
		if ss, ok := key.box.(SegStr); ok {
			k := 0
			for _, p := range ss.parts {
				if p.num != nil {
					if k == idx {
						f.env[x] = Sc{p.num}
						return nil, true
					}
					k++
				}
			}
			s.fail("unsupported", "vSeqPart index")
			return nil, true
		}
		ks, ok1 := m.toGo(s, key, types.Typ[types.String])
		ps, ok2 := m.toGo(s, args[1], types.Typ[types.String])
		if !ok1 || !ok2 {
			s.fail("unsupported", "vSeqPart on symbolic string")
			return nil, true
		}
		parts := strings.Split(strings.TrimPrefix(ks.(string), ps.(string)), "-")[1:]
		var n uint64
		if idx < len(parts) {
			fmt.Sscanf(parts[idx], "%d", &n)
		}
		f.env[x] = Sc{c.BV(n, 64)}
		return nil, true
	case strings.HasPrefix(name, "fmt.") || name == "github.com/pkg/errors.Errorf":
		if succ, ok := m.fmtIntrinsic(s, f, x, name, args); ok {
			return succ, true
		}
	case short == "vTempDir":
		f.env[x] = m.mkStr("/zzverif")
		return nil, true
	case short == "vGo":
		fv := args[1].(FuncV)
		m.spawn(s, fv.fn, nil, fv.free)
		return nil, true
	case short == "vReach":
		s.reached[strConst(args[0])] = true
		return nil, true
	case name == "bytes.IndexByte":
		bs := m.bytesOf(s, args[0])
		ch := sc(args[1])
		// fork over the position of the first match
		var out []*State
		none := c.Bool(true)
		for i := 0; i <= len(bs); i++ {
			var cond *Term
			if i < len(bs) {
				cond = c.And(none, c.Cmp("=", bs[i], ch))
			} else {
				cond = none
			}
			if s.feasible(cond) {
				st := s.clone()
				m.stats.forks++
				if !cond.konst {
					st.pc = append(st.pc, cond)
				}
				r := int64(i)
				if i == len(bs) {
					r = -1
				}
				st.top().env[x] = Sc{c.BV(uint64(r), 64)}
				out = append(out, st)
			}
			if i < len(bs) {
				none = c.And(none, c.Not(c.Cmp("=", bs[i], ch)))
			}
		}
		return out, true
	case strings.HasPrefix(name, "(encoding/binary.bigEndian).") || strings.HasPrefix(name, "(encoding/binary.littleEndian)."):
		if r, ok := m.binaryIntrinsic(s, f, x, name, args); ok {
			return r, true
		}
	case name == "bytes.Count":
		bs := m.bytesOf(s, args[0])
		sep := m.bytesOf(s, args[1])
		if len(sep) != 1 {
			s.fail("unsupported", "bytes.Count with a separator that is not one byte")
			return nil, true
		}
		cnt := c.BV(0, 64)
		for _, b := range bs {
			cnt = c.BvBin("bvadd", cnt, c.Ite(c.Cmp("=", b, sep[0]), c.BV(1, 64), c.BV(0, 64)))
		}
		f.env[x] = Sc{cnt}
		return nil, true
	case name == "bytes.Compare":
		f.env[x] = Sc{m.cmpBytes(m.bytesOf(s, args[0]), m.bytesOf(s, args[1]))}
		return nil, true
	case name == "bytes.Equal":
		f.env[x] = Sc{c.Cmp("=", m.cmpBytes(m.bytesOf(s, args[0]), m.bytesOf(s, args[1])), c.BV(0, 64))}
		return nil, true
	case name == "errors.New" || name == "github.com/pkg/errors.New":
		m.nerr++
		f.env[x] = IfaceV{typ: x.Type(), v: &ErrV{id: m.nerr, msg: strConst(args[0])}}
		return nil, true
	case name == "github.com/pkg/errors.Wrapf" || name == "github.com/pkg/errors.Wrap":
		iv := args[0].(IfaceV)
		if iv.typ == nil {
			f.env[x] = IfaceV{}
			return nil, true
		}
		m.nerr++
		f.env[x] = IfaceV{typ: iv.typ, v: &ErrV{id: m.nerr, msg: "wrap", cause: iv.v.(*ErrV)}}
		return nil, true
	case name == "github.com/pkg/errors.Is" || name == "errors.Is":
		e := args[0].(IfaceV)
		t := args[1].(IfaceV)
		res := false
		if e.typ != nil && t.typ != nil {
			ev, ok1 := e.v.(*ErrV)
			tv, ok2 := t.v.(*ErrV)
			if ok1 && ok2 {
				for cur := ev; cur != nil; cur = cur.cause {
					if cur == tv {
						res = true
					}
				}
			} else if !ok1 && !ok2 {
				// error values that are ordinary Go objects (e.g. *strconv.NumError): identity only
				if p1, isP1 := e.v.(Ptr); isP1 {
					if p2, isP2 := t.v.(Ptr); isP2 {
						res = p1.obj == p2.obj
					}
				}
			}
		}
		f.env[x] = Sc{c.Bool(res)}
		return nil, true
	case name == "errors.As" || name == "github.com/pkg/errors.As":
		cur, _ := args[0].(IfaceV)
		tgt, _ := args[1].(IfaceV)
		res := false
		if pt, ok := tgt.typ.(*types.Pointer); ok {
			want := pt.Elem()
			for depth := 0; depth < 8 && cur.typ != nil; depth++ {
				if _, isIface := want.Underlying().(*types.Interface); !isIface && types.Identical(cur.typ, want) {
					s.store(tgt.v.(Ptr), cur.v)
					res = true
					break
				}
				// unwrap
				next := IfaceV{}
				switch v := cur.v.(type) {
				case *ErrV:
					if v.cause != nil {
						next = IfaceV{typ: cur.typ, v: v.cause}
					}
				case Ptr:
					if v.obj != 0 {
						if st, ok := s.load(v).(StructV); ok {
							if ptt, ok := cur.typ.(*types.Pointer); ok {
								if stt, ok := ptt.Elem().Underlying().(*types.Struct); ok {
									for i := 0; i < stt.NumFields(); i++ {
										if stt.Field(i).Name() == "Err" {
											if iv, ok := st.f[i].(IfaceV); ok {
												next = iv
											}
										}
									}
								}
							}
						}
					}
				}
				cur = next
			}
		}
		f.env[x] = Sc{c.Bool(res)}
		return nil, true
	case name == "(*sync.Pool).Get":
		f.env[x] = IfaceV{}
		return nil, true
	case name == "(*sync.Pool).Put":
		return nil, true
	case name == "google.golang.org/grpc/status.Error" || name == "google.golang.org/grpc/status.Errorf":
		m.nerr++
		code := uint64(2)
		if t, ok := args[0].(Sc); ok && t.t.konst {
			code = t.t.cv
		}
		f.env[x] = IfaceV{typ: x.Type(), v: &ErrV{id: m.nerr, msg: fmt.Sprintf("grpc-status-%d", code)}}
		return nil, true
	case name == "google.golang.org/grpc/status.Code":
		f.env[x] = Sc{c.BV(2, 32)} // codes.Unknown for a non-nil error that carries no status
		iv := args[0].(IfaceV)
		if iv.typ == nil {
			f.env[x] = Sc{c.BV(0, 32)}
		} else if ev, ok := iv.v.(*ErrV); ok {
			for e := ev; e != nil; e = e.cause {
				var code uint64
				if n, _ := fmt.Sscanf(e.msg, "grpc-status-%d", &code); n == 1 {
					f.env[x] = Sc{c.BV(code, 32)}
					break
				}
			}
		}
		return nil, true
	case name == "(*github.com/cenkalti/backoff/v4.ExponentialBackOff).NextBackOff":
		m.stubs["backoff interval abstracted to a constant 100ms (randomised floating-point interval not modelled)"]++
		f.env[x] = Sc{c.BV(100_000_000, 64)}
		return nil, true
	case name == "(github.com/oxia-db/oxia/server/util/crc.Checksum).Update":
		// crc32 (assembly): uninterpreted function of (previous value, bytes); one symbol per length
		bs := m.bytesOf(s, args[1])
		m.stubs["crc32 as uninterpreted function"]++
		s.uf = true
		f.env[x] = Sc{c.UF(fmt.Sprintf("crc%d", len(bs)), 32, append([]*Term{sc(args[0])}, bs...)...)}
		return nil, true
	case strings.HasSuffix(name, ".init") && callee.Pkg != nil && !m.initPkgs[callee.Pkg.Pkg.Path()]:
		return nil, true // skip foreign package initialisers
	}
	return nil, false
}

func (m *Machine) zeroOrOpaque(t types.Type) Value {
	if tt, ok := t.(*types.Tuple); ok && tt.Len() == 0 {
		return nil
	}
	return m.zero(t)
}

// forkOnly constrains s with cond (no else branch kept).
func (m *Machine) forkOnly(s *State, cond *Term) (*State, bool) {
	if cond.konst {
		if cond.cv == 1 {
			return s, true
		}
		return nil, false
	}
	if !s.feasible(cond) {
		return nil, false
	}
	s.pc = append(s.pc, cond)
	return s, true
}

// summarizedCall explores the callee in isolation from the current state and merges all normal
// returns into one ite value (scalars only). Panic / failed sub-paths are returned as separate states.
func (m *Machine) summarizedCall(s *State, f *Frame, x *ssa.Call, callee *ssa.Function, args []Value) []*State {
	c := m.ctx
	base := len(s.frames)
	sub := s.clone()
	m.pushFrame(sub, callee, args, nil, nil)
	basePc := len(s.pc)
	work := []*State{sub}
	type ret struct {
		guard *Term
		vals  []Value
	}
	var rets []ret
	var others []*State
	for len(work) > 0 {
		st := work[len(work)-1]
		work = work[:len(work)-1]
		succ := m.run(st, base)
		if succ != nil {
			work = append(work, succ...)
			continue
		}
		if st.status != "" {
			if st.status != "infeasible" && st.status != "assume-false" {
				others = append(others, st)
			}
			continue
		}
		g := c.Bool(true)
		for _, p := range st.pc[basePc:] {
			g = c.And(g, p)
		}
		rets = append(rets, ret{g, st.summaryResult})
	}
	if len(rets) > 0 {
		m.stats.merged += len(rets)
		nres := len(rets[0].vals)
		merged := make([]Value, nres)
		for i := 0; i < nres; i++ {
			acc := sc(rets[len(rets)-1].vals[i])
			for k := len(rets) - 2; k >= 0; k-- {
				acc = c.Ite(rets[k].guard, sc(rets[k].vals[i]), acc)
			}
			merged[i] = Sc{acc}
		}
		// the merged continuation holds under the disjunction of the guards
		dis := c.Bool(false)
		for _, r := range rets {
			dis = c.Or(dis, r.guard)
		}
		if !dis.konst {
			s.pc = append(s.pc, dis)
		}
		switch nres {
		case 0:
		case 1:
			f.env[x] = merged[0]
		default:
			f.env[x] = TupleV{merged}
		}
		if len(others) == 0 {
			return nil
		}
		return append(others, s)
	}
	if len(others) == 0 {
		s.fail("infeasible", "no return path")
		return nil
	}
	return others
}

// binaryIntrinsic models encoding/binary's fixed-width accessors as concat/extract so that a value
// written and read back is syntactically the same term.
func (m *Machine) binaryIntrinsic(s *State, f *Frame, x *ssa.Call, name string, args []Value) ([]*State, bool) {
	c := m.ctx
	big := strings.Contains(name, "bigEndian")
	meth := name[strings.LastIndex(name, ".")+1:]
	var nb int
	switch {
	case strings.HasSuffix(meth, "16"):
		nb = 2
	case strings.HasSuffix(meth, "32"):
		nb = 4
	case strings.HasSuffix(meth, "64"):
		nb = 8
	default:
		return nil, false
	}
	in := f.blk.Instrs[f.idx-1]
	split := func(v *Term) []*Term { // bytes in memory order
		out := make([]*Term, nb)
		for i := 0; i < nb; i++ {
			b := c.Extract(8*i+7, 8*i, v) // i-th least significant byte
			if big {
				out[nb-1-i] = b
			} else {
				out[i] = b
			}
		}
		return out
	}
	switch {
	case strings.HasPrefix(meth, "Uint"):
		sl := args[1].(SliceV)
		if sl.len < nb {
			m.panicState(s, "index out of range", f, in)
			return nil, true
		}
		var acc *Term
		for i := 0; i < nb; i++ {
			k := i
			if !big {
				k = nb - 1 - i
			}
			b := sc(m.sliceElem(s, sl, k))
			if acc == nil {
				acc = b
			} else {
				acc = c.Concat(acc, b)
			}
		}
		f.env[x] = Sc{acc}
		return nil, true
	case strings.HasPrefix(meth, "PutUint"):
		sl := args[1].(SliceV)
		if sl.len < nb {
			m.panicState(s, "index out of range", f, in)
			return nil, true
		}
		for i, b := range split(sc(args[2])) {
			s.store(Ptr{obj: sl.obj, path: append(append([]int(nil), sl.path...), sl.off+i)}, Sc{b})
		}
		return nil, true
	case strings.HasPrefix(meth, "AppendUint"):
		var vals []Value
		for _, b := range split(sc(args[2])) {
			vals = append(vals, Sc{b})
		}
		f.env[x] = m.doAppend(s, x.Type(), args[1].(SliceV), vals)
		return nil, true
	}
	return nil, false
}

// timeIntrinsic: time.Time is abstracted to integer milliseconds since the epoch (oxia's timestamps are
// UnixMilli values). Representation: the struct {wall, ext, loc} with ext = milliseconds, wall = 0.
func (m *Machine) timeIntrinsic(s *State, f *Frame, x *ssa.Call, name string, args []Value) ([]*State, bool) {
	c := m.ctx
	mk := func(ms *Term) Value {
		tv := m.zero(m.timeType(x)).(StructV)
		tv.f[1] = Sc{ms}
		return tv
	}
	ms := func(v Value) *Term { return sc(v.(StructV).f[1]) }
	m.stubs["time.Time abstracted to integer milliseconds"]++
	switch name {
	case "time.Now":
		t := m.internalScalar(s, "now_ms", types.Typ[types.Int64])
		// non-decreasing clock
		if s.lastNow != nil {
			s.pc = append(s.pc, c.Cmp("bvsge", sc(t), s.lastNow))
		}
		s.pc = append(s.pc, c.Cmp("bvsge", sc(t), c.BV(0, 64)), c.Cmp("bvslt", sc(t), c.BV(1<<50, 64)))
		s.lastNow = sc(t)
		f.env[x] = mk(sc(t))
		return nil, true
	case "time.UnixMilli":
		f.env[x] = mk(sc(args[0]))
		return nil, true
	case "(time.Time).UnixMilli":
		f.env[x] = Sc{ms(args[0])}
		return nil, true
	case "(time.Time).Add":
		d := sc(args[1])
		if !d.konst {
			return nil, false
		}
		f.env[x] = mk(c.BvBin("bvadd", ms(args[0]), c.BV(uint64(sext(d.cv, 64)/1000000), 64)))
		return nil, true
	case "(time.Time).Before":
		f.env[x] = Sc{c.Cmp("bvslt", ms(args[0]), ms(args[1]))}
		return nil, true
	case "(time.Time).After":
		f.env[x] = Sc{c.Cmp("bvsgt", ms(args[0]), ms(args[1]))}
		return nil, true
	case "(time.Time).Sub":
		f.env[x] = Sc{c.BvBin("bvmul", c.BvBin("bvsub", ms(args[0]), ms(args[1])), c.BV(1000000, 64))}
		return nil, true
	case "time.Since":
		f.env[x] = Sc{c.BV(0, 64)}
		return nil, true
	case "time.After":
		id := s.alloc(ChanV{cap: 1, timer: true, buf: []Value{m.zero(x.Type().Underlying().(*types.Chan).Elem())}})
		f.env[x] = Ptr{obj: id}
		return nil, true
	case "time.NewTimer":
		// the timer may fire at any moment: its channel is ready from the start
		m.stubs["time.NewTimer: may fire at any moment (durations are not modelled)"]++
		tk := m.zero(x.Type().(*types.Pointer).Elem()).(StructV)
		et := tk.f[0]
		_ = et
		if m.timersOff {
			tk.f[0] = Ptr{obj: s.alloc(ChanV{cap: 1, timer: true})}
		} else {
			tk.f[0] = Ptr{obj: s.alloc(ChanV{cap: 1, timer: true, buf: []Value{m.zero(m.timeType(x))}})}
		}
		f.env[x] = Ptr{obj: s.alloc(tk)}
		return nil, true
	case "time.NewTicker":
		// periodic background work (retention trimmers) is checked by its own harnesses: the tick never fires here
		m.stubs["time.NewTicker: the tick never fires (periodic trimming is checked separately)"]++
		tk := m.zero(x.Type().(*types.Pointer).Elem()).(StructV)
		if m.tickerFires > 0 {
			// root option ticker_fires: the ticker fires up to k times, each at any moment
			m.stubs[fmt.Sprintf("time.NewTicker: fires up to %d times, at any moment", m.tickerFires)]++
			var buf []Value
			for i := 0; i < m.tickerFires; i++ {
				buf = append(buf, m.zero(m.timeType(x)))
			}
			tk.f[0] = Ptr{obj: s.alloc(ChanV{cap: m.tickerFires, timer: true, buf: buf})}
		} else {
			tk.f[0] = Ptr{obj: s.alloc(ChanV{cap: 1})}
		}
		f.env[x] = Ptr{obj: s.alloc(tk)}
		return nil, true
	case "(*time.Timer).Reset", "(*time.Ticker).Reset":
		if x != nil && name == "(*time.Timer).Reset" {
			f.env[x] = Sc{c.Bool(true)}
		}
		if name == "(*time.Timer).Reset" && !m.timersOff {
			// re-armed: like a new timer it may fire at any moment from now on (exactly one pending value)
			if tp, ok := args[0].(Ptr); ok && tp.obj != 0 {
				if tk, ok := s.load(tp).(StructV); ok && len(tk.f) > 0 {
					if cp, ok := tk.f[0].(Ptr); ok && cp.obj != 0 {
						if ch, ok := s.load(cp).(ChanV); ok && ch.timer && m.timeT != nil {
							ch.buf = []Value{m.zero(m.timeT)}
							s.store(cp, ch)
						}
					}
				}
			}
		}
		return nil, true
	case "(*time.Ticker).Stop", "(*time.Timer).Stop":
		if x != nil && name == "(*time.Timer).Stop" {
			f.env[x] = Sc{c.Bool(true)}
		}
		if name == "(*time.Timer).Stop" {
			// Go >= 1.23 (go.mod says 1.24): after Stop returns no stale value can be received from the channel
			if tp, ok := args[0].(Ptr); ok && tp.obj != 0 {
				if tk, ok := s.load(tp).(StructV); ok && len(tk.f) > 0 {
					if cp, ok := tk.f[0].(Ptr); ok && cp.obj != 0 {
						if ch, ok := s.load(cp).(ChanV); ok && len(ch.buf) > 0 {
							ch.buf = nil
							s.store(cp, ch)
						}
					}
				}
			}
		}
		return nil, true
	}
	return nil, false
}

func (m *Machine) timeType(x *ssa.Call) types.Type {
	if m.timeT == nil {
		for _, p := range m.prog.AllPackages() {
			if p.Pkg.Path() == "time" {
				m.timeT = p.Type("Time").Type()
			}
		}
	}
	return m.timeT
}

type RegexV struct{ pat string }

func fnPkgPath(fn *ssa.Function) string {
	if fn.Pkg != nil {
		return fn.Pkg.Pkg.Path()
	}
	if o := fn.Origin(); o != nil && o.Pkg != nil {
		return o.Pkg.Pkg.Path()
	}
	return ""
}

// isZeroValue: concrete zero scalar / empty string / nil pointer, slice or map (what encoding/json's omitempty drops)
func (m *Machine) isZeroValue(v Value) bool {
	switch x := v.(type) {
	case Sc:
		return x.t != nil && x.t.konst && x.t.cv == 0
	case StrV:
		return x.box == nil && len(x.b) == 0
	case Ptr:
		return x.obj == 0
	case SliceV:
		return x.obj == 0 || x.len == 0
	case nil:
		return true
	}
	return false
}
