#!/usr/bin/env python3
"""Regenerates level_claimed.text / level_note of every MANIFEST check from harness/index.json."""
import json
idx = json.load(open('/verif/harness/index.json'))
m = json.load(open('/verif/MANIFEST.json'))
HEAD = ("Bounded model checking of the implementation: the real functions are executed symbolically from go/ssa "
        "(rebuilt from /repo's working tree on every run) by the gosym interpreter; every assertion, Go panic condition and "
        "loop bound is decided by z3 over all values of the symbolic inputs / schedules within the stated bounds; "
        "counterexamples are replayed natively. Harnesses: ")
for c in m['checks']:
    p = idx['properties'][c['property_id']]
    parts = []
    for r in p['roots']:
        parts.append(f"{r['fn']} ({r['pkg']}): {r['note']} [{r['bounds']}]")
    c['level_claimed'] = {'category': 'model_checking', 'text': HEAD + '; '.join(parts)}
    c['level_note'] = ("Trusted base: the gosym encoder (validated per run against native executions of witness paths and by "
                       "re-deciding sampled verdicts on z3-new and cvc5), the environment models and stubs listed in the evidence "
                       "(stubs_hit), and the assumptions: " + ' | '.join(p.get('assumptions', []) or ['none']) +
                       " || Outside the claim: " + ' | '.join(p.get('outside', []) or ['see evidence']))
json.dump(m, open('/verif/MANIFEST.json', 'w'), indent=1)
print('synced', len(m['checks']))
